#!/bin/sh
# Runs every check of MANIFEST.json in the given tier (default quick) against /repo and prints one line each.
tier=${1:-quick}
cd "$(dirname "$0")"
rc=0
for i in 01 02 03 04 05 06 07 08 09 10 11 12 13 14 15 16 17 18 19 20; do
  out=$(./check C$i --tier "$tier" 2>&1); r=$?
  echo "$out" | grep -E "^(VIOLATION|KNOWN-FINDING|HARNESS-ERROR|C$i \[)" 
  [ $r -ne 0 ] && rc=$r && echo "C$i exit=$r"
done
exit $rc
