"""Violation signatures, KNOWN_FINDINGS.txt matching, replay files, output contract."""
import os
import re
import json
import hashlib

VERIF = os.path.dirname(os.path.dirname(os.path.abspath(__file__)))
KNOWN_FILE = os.environ.get('MOSMC_KNOWN_FILE') or os.path.join(VERIF, 'KNOWN_FINDINGS.txt')
REPLAY_DIR = os.environ.get('MOSMC_REPLAY_DIR') or os.path.join(VERIF, 'replays')


def load_known():
    """-> dict property -> {sig: text} for `finding:` lines; `fixed:` lines suppress nothing."""
    known = {}
    if not os.path.exists(KNOWN_FILE):
        return known
    for line in open(KNOWN_FILE, encoding='utf-8'):
        line = line.strip()
        m = re.match(r'finding:\s+property=(\S+)\s+sig=(\S+)\s*(.*)', line)
        if m:
            known.setdefault(m.group(1), {})[m.group(2)] = m.group(3)
    return known


def sig_hash(sig):
    return hashlib.sha1(sig.encode()).hexdigest()[:12]


def write_replay(prop, finding, extra=None):
    d = os.path.join(REPLAY_DIR, prop)
    os.makedirs(d, exist_ok=True)
    path = os.path.join(d, sig_hash(finding['sig']) + '.json')
    doc = dict(finding)
    doc['case'] = _jsonable(doc.get('case'))
    if extra:
        doc.update(extra)
    with open(path, 'w', encoding='utf-8') as f:
        json.dump(doc, f, indent=1, ensure_ascii=False, default=str)
    return path


def _jsonable(x):
    if isinstance(x, dict):
        return {str(k): _jsonable(v) for k, v in x.items()}
    if isinstance(x, (list, tuple)):
        return [_jsonable(v) for v in x]
    if isinstance(x, str):
        return x.replace('\x00blank', '<BLANK>').replace('\x00absent', '<ABSENT>')
    return x


def report(prop, findings, replay_extra=None, out=print):
    """findings: iterable of finding dicts for this property.
    Prints KNOWN-FINDING / VIOLATION lines; returns (n_violations, n_known)."""
    known = load_known().get(prop, {})
    nv = nk = 0
    seen_known = set()
    for f in sorted(findings, key=lambda f: f['sig']):
        if f['sig'] in known:
            if f['sig'] not in seen_known:
                seen_known.add(f['sig'])
                out(f"KNOWN-FINDING: property={prop} sig={f['sig']} {known[f['sig']]} (instances this run: {f.get('count', 1)})")
                nk += 1
            continue
        extra = replay_extra(f) if replay_extra else None
        path = write_replay(prop, f, extra)
        out(f"VIOLATION property={prop} replay={path}")
        out(f"  sig={f['sig']} instances={f.get('count', 1)}")
        out(f"  {f['detail']}")
        nv += 1
    return nv, nk
