"""Reference list semantics over plain lists of IDs.

Written twice: constructively (build the expected list) and declaratively
(predicates a result must satisfy).  selfcheck() runs both against each other
over every small input; a disagreement is a harness error, never a violation.
"""
import itertools

END = None   # target meaning 'after the last element'


# ------------------------------------------------------------ constructive
def insert_before(seq, new, target):
    """`new` (list, in message order) immediately before `target` (an element of seq) or at END."""
    seq = list(seq)
    if target is END:
        return seq + list(new)
    t = seq.index(target)
    return seq[:t] + list(new) + seq[t:]


def move_before(seq, srcs, target):
    """Remove every src, then insert them in message order immediately before target / at END.
    Requires: srcs distinct, all in seq, target not in srcs."""
    rest = [x for x in seq if x not in srcs]
    return insert_before(rest, list(srcs), target)


def replace(seq, target, new):
    seq = list(seq)
    t = seq.index(target)
    return seq[:t] + list(new) + seq[t + 1:]


def swap(seq, a, b):
    seq = list(seq)
    i, j = seq.index(a), seq.index(b)
    seq[i], seq[j] = seq[j], seq[i]
    return seq


def delete(seq, ids):
    return [x for x in seq if x not in ids]


# ------------------------------------------------------------ declarative
def _rel_order_kept(before, after, excluded):
    b = [x for x in before if x not in excluded]
    a = [x for x in after if x not in excluded]
    return a == b


def is_insert_before(seq, new, target, res):
    if sorted(res) != sorted(list(seq) + list(new)):
        return False
    if not _rel_order_kept(seq, res, set(new)):
        return False
    if not new:
        return list(res) == list(seq)
    i = res.index(new[0])
    if list(res[i:i + len(new)]) != list(new):
        return False
    nxt = res[i + len(new)] if i + len(new) < len(res) else END
    return nxt == target


def is_move_before(seq, srcs, target, res):
    if sorted(res) != sorted(seq):
        return False
    if not _rel_order_kept(seq, res, set(srcs)):
        return False
    if not srcs:
        return list(res) == list(seq)
    i = res.index(srcs[0])
    if list(res[i:i + len(srcs)]) != list(srcs):
        return False
    nxt = res[i + len(srcs)] if i + len(srcs) < len(res) else END
    return nxt == target


def is_replace(seq, target, new, res):
    t = list(seq).index(target)
    return (list(res[:t]) == list(seq[:t]) and list(res[t:t + len(new)]) == list(new)
            and list(res[t + len(new):]) == list(seq[t + 1:]))


def is_swap(seq, a, b, res):
    if len(res) != len(seq):
        return False
    for k, x in enumerate(seq):
        want = b if x == a else a if x == b else x
        if res[k] != want:
            return False
    return True


def is_delete(seq, ids, res):
    return all(x not in res for x in ids) and _rel_order_kept(seq, res, set(ids)) and \
        sorted(res) == sorted(x for x in seq if x not in ids)


def lenient_permutations(seq, named):
    """All permutations of seq in which the elements not in `named` keep their relative order.
    (Used where MOS leaves a move undefined: repeated IDs, target among the sources.)"""
    named = [x for x in dict.fromkeys(named) if x in seq]
    rest = [x for x in seq if x not in named]
    out = set()
    for perm in itertools.permutations(named):
        # all interleavings of perm into rest
        n, m = len(rest), len(perm)
        for slots in itertools.combinations_with_replacement(range(n + 1), m):
            res = []
            k = 0
            for pos in range(n + 1):
                while k < m and slots[k] == pos:
                    res.append(perm[k])
                    k += 1
                if pos < n:
                    res.append(rest[pos])
            out.add(tuple(res))
    return out


# ------------------------------------------------------------ self cross-check
def selfcheck(max_n=4):
    """Constructive vs declarative on every input with up to max_n elements. Returns #cases."""
    pool = list('abcde')[:max_n + 1]
    n = 0
    for k in range(max_n + 1):
        for seq in itertools.permutations(pool, k):
            seq = list(seq)
            newpool = [x for x in pool if x not in seq][:2]
            targets = seq + [END]
            for t in targets:
                for m in range(0, len(newpool) + 1):
                    for new in itertools.permutations(newpool, m):
                        r = insert_before(seq, list(new), t)
                        assert is_insert_before(seq, list(new), t, r), (seq, new, t, r)
                        n += 1
                for m in range(1, min(3, len(seq)) + 1):
                    for srcs in itertools.permutations(seq, m):
                        if t in srcs:
                            continue
                        r = move_before(seq, list(srcs), t)
                        assert is_move_before(seq, list(srcs), t, r), (seq, srcs, t, r)
                        assert tuple(r) in lenient_permutations(seq, list(srcs)), (seq, srcs, t, r)
                        # uniqueness: no other permutation satisfies the declarative form
                        if len(seq) <= 4:
                            sat = [p for p in itertools.permutations(seq)
                                   if is_move_before(seq, list(srcs), t, list(p))]
                            assert sat == [tuple(r)], (seq, srcs, t, sat)
                        n += 1
            for t in seq:
                for m in range(1, len(newpool) + 1):
                    for new in itertools.permutations(newpool + [t], m):
                        r = replace(seq, t, list(new))
                        assert is_replace(seq, t, list(new), r)
                        n += 1
            for a, b in itertools.permutations(seq, 2):
                r = swap(seq, a, b)
                assert is_swap(seq, a, b, r) and swap(r, a, b) == seq
                n += 1
            for m in range(0, len(seq) + 1):
                for ids in itertools.combinations(seq, m):
                    r = delete(seq, list(ids))
                    assert is_delete(seq, list(ids), r)
                    n += 1
    return n
