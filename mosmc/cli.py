"""./check <ID> [--tier quick|thorough]   |   ./check --replay <file>"""
import os
import sys
import argparse
import importlib


def main(argv=None):
    ap = argparse.ArgumentParser(prog='check')
    ap.add_argument('prop', nargs='?')
    ap.add_argument('--tier', default=os.environ.get('VERIF_TIER', 'quick'), choices=['quick', 'thorough'])
    ap.add_argument('--replay')
    a = ap.parse_args(argv)
    if a.replay:
        from . import replay
        return replay.main(a.replay)
    if not a.prop:
        ap.error('property id required')
    try:
        mod = importlib.import_module(f'mosmc.props.{a.prop.lower()}')
        return mod.run(a.tier)
    except Exception:  # noqa - a crash of the machinery is a harness error (exit 3), never a violation (exit 1)
        import traceback
        traceback.print_exc()
        print(f'HARNESS-ERROR {a.prop}: the check itself failed (see traceback)')
        return 3


if __name__ == '__main__':
    sys.exit(main())
