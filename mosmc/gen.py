"""Alphabets and renderer: abstract descriptions -> MOS XML text.

Everything is a pure function of its arguments, so a story/item with a given
(id, variant) always has the same content and states canonicalise by text.
"""
from xml.sax.saxutils import escape, quoteattr
import xml.etree.ElementTree as ET

BLANK = '\x00blank'      # <storyID/>  (tag present, no text)
ABSENT = '\x00absent'    # tag missing
UNKNOWN = 'ZZ9'          # an ID that is never in any pool

# prefix pairs (A / AB, a / ab) are in the pools on purpose: they expose prefix/substring matching
STORY_POOL = ['A', 'AB', 'C', 'D', 'E', 'F', 'G']
ITEM_POOL = ['a', 'ab', 'c', 'd', 'e', 'f', 'g']
RO_ID = 'RO1'
# IDs that look like numbers, carry spaces, markup-significant and non-ASCII characters, differ only in case
EXOTIC_IDS = ['10', '9', 'A', 'a', 'A ', ' A', 'a b', 'x&y<z>', 'Ä\U0001F600', 'q\'"]=[', 'x%20y {0} \\1']
EXOTIC_QUICK = ['10', 'A', 'a', 'A ', 'x&y< z>\'"]', 'x%20y {0} \\1']

SPECIAL = 'x&y<z>"q\' é\U0001F600é'     # markup-significant, non-BMP, combining


def ref_name(r):
    return {BLANK: 'BLANK', ABSENT: 'ABSENT'}.get(r, r)


def id_tag(tag, ref):
    if ref == ABSENT:
        return ''
    if ref == BLANK:
        return f'<{tag}/>'
    return f'<{tag}>{escape(ref)}</{tag}>'


def envelope(body, msg_id=2000, mos_id='m.os', ncs_id='ncs', extra_before='', extra_after=''):
    return (f'<mos><mosID>{mos_id}</mosID><ncsID>{ncs_id}</ncsID><messageID>{msg_id}</messageID>'
            f'{extra_before}{body}{extra_after}</mos>')


# ---------------------------------------------------------------- durations
_DUR = {}


def dur_of(sid):
    """Distinct power of two per story id (unique subset sums)."""
    if sid not in _DUR:
        pool = STORY_POOL + [UNKNOWN]
        _DUR[sid] = 2 ** pool.index(sid) if sid in pool else 2 ** (8 + (sum(map(ord, sid)) % 8))
    return _DUR[sid]


def timing_xml(sid, kind, started=None, ended=None):
    """mosPayload children for a timing kind.
    kinds: none, dur, text, media, both, dur+text, nometa (no mosExternalMetadata at all)"""
    d = dur_of(sid)
    parts = []
    if kind == 'dur':
        parts.append(f'<StoryDuration>{d}</StoryDuration>')
    elif kind == 'text':
        parts.append(f'<TextTime>{d}</TextTime>')
    elif kind == 'media':
        parts.append(f'<MediaTime>{d}.5</MediaTime>')
    elif kind == 'both':
        parts.append(f'<TextTime>{d}</TextTime><MediaTime>{d * 256}</MediaTime>')
    elif kind == 'dur+text':
        parts.append(f'<StoryDuration>{d}</StoryDuration><TextTime>{d * 256}</TextTime>')
    elif kind == 'all3':            # all three present: StoryDuration still decides
        parts.append(f'<TextTime>{d * 256}</TextTime><MediaTime>{d * 65536}</MediaTime><StoryDuration>{d}</StoryDuration>')
    elif kind == 'zero':            # a known duration of zero seconds (boundary value: falsy but not missing)
        parts.append('<StoryDuration>0</StoryDuration>')
    elif kind == 'zero-text':
        parts.append('<TextTime>0</TextTime><MediaTime>0</MediaTime>')
    elif kind in ('none', 'nometa'):
        pass
    else:
        raise ValueError(kind)
    if started:
        parts.append(f'<StoryStarted>{started}</StoryStarted>')
    if ended:
        parts.append(f'<StoryEnded>{ended}</StoryEnded>')
    return ''.join(parts)


def mem_xml(schema, payload, attrs=''):
    return (f'<mosExternalMetadata{attrs}><mosSchema>{escape(schema)}</mosSchema>'
            f'<mosPayload>{payload}</mosPayload></mosExternalMetadata>')


# ---------------------------------------------------------------- items
def item_xml(iid, variant=0, owner='', rich=False, tag='item', fields=('slug',)):
    """An <item> (or <storyItem>) element. `fields` selects optional children."""
    parts = [id_tag('itemID', iid)]
    label = f'{ref_name(iid)}@{owner} v{variant}'
    if 'slug' in fields:
        parts.append(f'<itemSlug>{escape(label)}</itemSlug>')
    for f_, tag_ in (('slug-blank', 'itemSlug'), ('objID-blank', 'objID'), ('mosID-blank', 'mosID'), ('objType-blank', 'objType')):
        if f_ in fields:
            parts.append(f'<{tag_}/>')
    if 'note-blank' in fields:
        parts.append(mem_xml('note.schema', '<studioCommands><studioCommand type="note"><text/></studioCommand></studioCommands>'))
    if 'objID' in fields:
        parts.append(f'<objID>obj-{escape(label)}</objID>')
    if 'mosID' in fields:
        parts.append(f'<mosID>mos-{escape(label)}</mosID>')
    if 'objType' in fields:
        parts.append('<objType>VIDEO</objType>')
    if 'note' in fields:
        parts.append(mem_xml('note.schema',
                             f'<studioCommands><studioCommand type="other"><text>no</text></studioCommand>'
                             f'<studioCommand type="note"><text>note {escape(label)}</text></studioCommand>'
                             f'</studioCommands>'))
    if rich:
        parts.append(f'<mosAbstract kind={quoteattr(SPECIAL)}>abs {escape(label)} {escape(SPECIAL)}'
                     f'<b>bold</b> tail {escape(label)}<em k="1"/>end</mosAbstract>')
    return f'<{tag}>' + ''.join(parts) + f'</{tag}>'


# ---------------------------------------------------------------- stories
P_KINDS = {
    'plain': 'Hello world',
    'empty': None,                 # <p/>
    'ws': '   \n  ',
    'round': '(note)',
    'angle': '&lt;note&gt;',
    'half-open': '(half',
    'half-close': 'half)',
    'padded': '  (padded)  ',
    'parens-only': '()',
    'inner': 'a (b) c',
    'unicode': 'café \U0001F600 é &amp; &lt;b&gt;',
    'padded-plain': '  spaced text \n',
    'mixed-br': '(a) and (b)',
    'round-angle': '(opens round, closes angle&gt;',
    'angle-round': '&lt;opens angle, closes round)',
    'round-multiline': '(a note\n over two lines)',
    'angle-multiline': '&lt;cue\n two&gt;',
    # Unicode white space (White_Space=yes: NO-BREAK SPACE, IDEOGRAPHIC SPACE) is white space: a paragraph made of it is
    # whitespace-only, and "stripped" removes it from the edges
    # text that is not in Unicode normal form C (combining mark, singletons): it is the text, as it stands
    'decomposed': 'cafe\u0301 \u212b \u2126',
    'nbsp-only': '\u00a0\u3000',
    'nbsp-edged': '\u00a0Tonight at ten\u3000',
}


def p_xml(kind, label=''):
    t = P_KINDS[kind]
    if t is None:
        return '<p/>'
    if kind == 'plain' and label:
        return f'<p>{escape(label)}</p>'
    return f'<p>{t}</p>'


def body_xml(body, owner, rich=False, item_tag='item'):
    """body: tuple of tokens ('i', iid[, variant[, fields]]) | ('p', kind) | ('x', n)"""
    out = []
    for tok in body:
        if tok[0] == 'i':
            iid = tok[1]
            variant = tok[2] if len(tok) > 2 else 0
            fields = tok[3] if len(tok) > 3 else ('slug',)
            out.append(item_xml(iid, variant, owner, rich=rich, tag=item_tag, fields=fields))
        elif tok[0] == 'p':
            out.append(p_xml(tok[1], label=f'text of {owner} #{len(out)}'))
        elif tok[0] == 'x':
            # a foreign element that HOLDS a paragraph and an item (same item ID as a real one): only direct
            # children of the story are its paragraphs and items
            out.append(f'<foreign n="{tok[1]}">f{tok[1]}<p>hidden paragraph {tok[1]}</p><item><itemID>a</itemID>'
                       f'<itemSlug>hidden in foreign {tok[1]}</itemSlug></item><inner/>t</foreign>')
        else:
            raise ValueError(tok)
    return ''.join(out)


def story_xml(sid, variant=0, body=(('p', 'plain'),), timing='dur', rich=False,
              started=None, ended=None, slug=True, tag='story'):
    """A <story> element with id, slug, timing metadata and body."""
    owner = ref_name(sid)
    parts = [id_tag('storyID', sid)]
    if timing == 'nopayload':
        # a metadata block without any mosPayload: "absent optional data"
        rest = ('<storySlug/>' if slug == 'blank' else f'<storySlug>{escape(owner)} slug v{variant}</storySlug>' if slug else '')
        return (f'<{tag}>' + parts[0] + rest + '<mosExternalMetadata><mosSchema>schema.without.payload</mosSchema></mosExternalMetadata>'
                + body_xml(body, owner, rich=rich) + f'</{tag}>')
    if slug == 'blank':
        parts.append('<storySlug/>')
    elif slug:
        parts.append(f'<storySlug>{escape(owner)} slug v{variant}</storySlug>')
    if timing != 'nometa':
        attrs = f' owner={quoteattr(owner + SPECIAL)}' if rich else ''
        extra = (f'<custom a="1" b={quoteattr(SPECIAL)}>t1<deep><deeper x="y">{escape(SPECIAL)}</deeper>'
                 f'tail</deep>t2</custom>') if rich else ''
        parts.append(mem_xml(f'schema.story.v{variant}',
                             timing_xml(sid, timing, started, ended) + extra, attrs))
    parts.append(body_xml(body, owner, rich=rich))
    return f'<{tag}>' + ''.join(parts) + f'</{tag}>'


# ---------------------------------------------------------------- running orders
LAYOUTS = ('before', 'between', 'after', 'none')


def meta_elems(n=3, variant=0, edstart=True):
    """Running-order level metadata elements (besides roID)."""
    elems = [f'<roSlug>RO slug v{variant}</roSlug>']
    if edstart is True:
        elems.append('<roEdStart>2020-01-01T12:30:00</roEdStart>')
    elif edstart == 'empty':
        elems.append('<roEdStart/>')
    # decoys: a completion-shaped record and a <story> (with the ID of a real story) buried in metadata - only a
    # mosromgrmeta child of the root completes a running order, only direct children of roCreate are its stories
    elems.append(mem_xml('ro.schema.1', f'<roNote v="{variant}">note one</roNote>'
                                        f'<mosromgrmeta><roDelete><roID>decoy</roID></roDelete></mosromgrmeta>'))
    elems.append(mem_xml('ro.schema.2', f'<roNote v="{variant}">note two</roNote>'
                                        f'<story><storyID>A</storyID><storySlug>hidden in metadata</storySlug></story>'))
    elems.append(f'<roChannel>chan{variant}</roChannel>')
    return elems[:n] if n is not None else elems


def rocreate_xml(stories, layout='before', meta=None, ro_id=RO_ID, tag='roCreate'):
    """stories: list of XML strings; layout places `meta` relative to the stories."""
    if meta is None:
        meta = meta_elems()
    head = f'<roID>{escape(ro_id)}</roID>'
    if layout == 'before':
        inner = head + ''.join(meta) + ''.join(stories)
    elif layout == 'after':
        inner = head + ''.join(stories) + ''.join(meta)
    elif layout == 'none':
        inner = head + ''.join(stories)
    elif layout == 'between':
        # metadata interleaved: one element before the first story, then one after each story
        m = list(meta)
        seq = [head]
        if m:
            seq.append(m.pop(0))
        for s in stories:
            seq.append(s)
            if m:
                seq.append(m.pop(0))
        seq.extend(m)
        inner = ''.join(seq)
    else:
        raise ValueError(layout)
    return f'<{tag}>{inner}</{tag}>'


def ro_text(stories, layout='before', meta=None, ro_id=RO_ID, msg_id=1000, envelope_variant='std'):
    body = rocreate_xml(stories, layout, meta, ro_id)
    if envelope_variant == 'trailing':
        # roCreate is neither the last nor the fourth child of the root; no ncsID
        return (f'<mos><messageID>{msg_id}</messageID><mosID>m.os</mosID><extra k="v">before</extra><extra2/>{body}'
                f'<trailer>after<deep/></trailer><trailer2/></mos>')
    return envelope(body, msg_id=msg_id)


# ---------------------------------------------------------------- messages
def _ro(ro_id):
    return f'<roID>{escape(ro_id)}</roID>'


def msg_story_append(stories, ro_id=RO_ID, **kw):
    return envelope(f'<roStoryAppend>{_ro(ro_id)}{"".join(stories)}</roStoryAppend>', **kw)


def msg_story_insert(target, stories, ro_id=RO_ID, **kw):
    return envelope(f'<roStoryInsert>{_ro(ro_id)}{id_tag("storyID", target)}{"".join(stories)}</roStoryInsert>', **kw)


def msg_story_replace(target, stories, ro_id=RO_ID, **kw):
    return envelope(f'<roStoryReplace>{_ro(ro_id)}{id_tag("storyID", target)}{"".join(stories)}</roStoryReplace>', **kw)


def msg_story_move(src, tgt, ro_id=RO_ID, **kw):
    return envelope(f'<roStoryMove>{_ro(ro_id)}{id_tag("storyID", src)}{id_tag("storyID", tgt)}</roStoryMove>', **kw)


def msg_story_delete(ids, ro_id=RO_ID, **kw):
    return envelope(f'<roStoryDelete>{_ro(ro_id)}{"".join(id_tag("storyID", i) for i in ids)}</roStoryDelete>', **kw)


def msg_story_send(sid, variant=1, body=(('p', 'plain'),), timing='dur', rich=False,
                   body_pos='last', ro_id=RO_ID, started=None, ended=None, **kw):
    """roStorySend: storyBody holds p / storyItem children. body_pos: first|middle|last|only"""
    owner = ref_name(sid)
    sb = '<storyBody>' + body_xml(body, owner, rich=rich, item_tag='storyItem') + '</storyBody>'
    attrs = f' owner={quoteattr(owner + SPECIAL)}' if rich else ''
    mem = '' if timing == 'nometa' else mem_xml(f'schema.story.v{variant}', timing_xml(sid, timing, started, ended), attrs)
    head = [_ro(ro_id), id_tag('storyID', sid), f'<storySlug>{escape(owner)} slug v{variant}</storySlug>',
            '<storyNum>7</storyNum>']
    if body_pos == 'last':
        parts = head + [mem, sb]
    elif body_pos == 'middle':
        parts = head + [sb, mem]
    elif body_pos == 'first':
        parts = [sb] + head + [mem]
    elif body_pos == 'only':
        parts = [_ro(ro_id), id_tag('storyID', sid), sb]
    else:
        raise ValueError(body_pos)
    return envelope('<roStorySend>' + ''.join(parts) + '</roStorySend>', **kw)


def msg_item_insert(story, item, items, ro_id=RO_ID, **kw):
    return envelope(f'<roItemInsert>{_ro(ro_id)}{id_tag("storyID", story)}{id_tag("itemID", item)}'
                    f'{"".join(items)}</roItemInsert>', **kw)


def msg_item_replace(story, item, items, ro_id=RO_ID, **kw):
    return envelope(f'<roItemReplace>{_ro(ro_id)}{id_tag("storyID", story)}{id_tag("itemID", item)}'
                    f'{"".join(items)}</roItemReplace>', **kw)


def msg_item_delete(story, ids, ro_id=RO_ID, **kw):
    return envelope(f'<roItemDelete>{_ro(ro_id)}{id_tag("storyID", story)}'
                    f'{"".join(id_tag("itemID", i) for i in ids)}</roItemDelete>', **kw)


def msg_item_move_multiple(story, srcs, tgt, ro_id=RO_ID, **kw):
    """Last itemID is the reference item (blank = end)."""
    return envelope(f'<roItemMoveMultiple>{_ro(ro_id)}{id_tag("storyID", story)}'
                    f'{"".join(id_tag("itemID", i) for i in srcs)}{id_tag("itemID", tgt)}</roItemMoveMultiple>', **kw)


def msg_metadata_replace(elems, ro_id=RO_ID, **kw):
    return envelope(f'<roMetadataReplace>{_ro(ro_id)}{"".join(elems)}</roMetadataReplace>', **kw)


def msg_ro_replace(stories, layout='before', meta=None, ro_id=RO_ID, **kw):
    return envelope(rocreate_xml(stories, layout, meta, ro_id, tag='roReplace'), **kw)


def msg_ro_delete(ro_id=RO_ID, **kw):
    return envelope(f'<roDelete>{_ro(ro_id)}</roDelete>', **kw)


def msg_ready_to_air(ro_id=RO_ID, air='READY', **kw):
    return envelope(f'<roReadyToAir>{_ro(ro_id)}<roAir>{air}</roAir></roReadyToAir>', **kw)


def msg_ea(operation, target_story=ABSENT, target_item=ABSENT, sources=(), packing='one',
           ro_id=RO_ID, target_present=True, **kw):
    """roElementAction.

    sources: list of XML fragments (id tags or story/item elements).
    packing: 'one' -> all in one <element_source>; 'per' -> one <element_source> per fragment.
    target_present=False omits <element_target> altogether."""
    if target_present:
        tgt = f'<element_target>{id_tag("storyID", target_story)}{id_tag("itemID", target_item)}</element_target>'
    else:
        tgt = ''
    if packing == 'one':
        src = '<element_source>' + ''.join(sources) + '</element_source>'
    elif packing == 'per':
        src = ''.join(f'<element_source>{s}</element_source>' for s in sources)
    else:
        raise ValueError(packing)
    op = '' if operation is None else f' operation={quoteattr(operation)}'
    return envelope(f'<roElementAction{op}>{_ro(ro_id)}{tgt}{src}</roElementAction>', **kw)


# ---------------------------------------------------------------- formatting variants
def prettify(text):
    """Pretty-printed variant of a document (whitespace text/tails everywhere it is formatting)."""
    root = ET.fromstring(text)
    ET.indent(root, space='  ')
    return ET.tostring(root, encoding='unicode')
