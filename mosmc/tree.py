"""Independent reader: XML text -> nested tuples and abstract views.

Only the standard-library parser is used; nothing from mosromgr.  Nodes are
(tag, attrib-tuple, text, tail, children-tuple).  Whitespace-only text/tails are
formatting and normalise to ''; all other text is kept exactly.
"""
import xml.etree.ElementTree as ET


def _norm(s):
    if s is None or not s.strip():
        return ''
    return s


def node(e):
    return (e.tag, tuple(sorted(e.attrib.items())), _norm(e.text), _norm(e.tail),
            tuple(node(c) for c in e))


def strip_tail(n):
    """Node with its own tail dropped (tails belong to the position, not the element)."""
    return (n[0], n[1], n[2], '', n[4])


def read(text):
    return ET.fromstring(text)


def child_text(e, tag):
    """Text of the first direct child `tag`; None when the tag is absent; '' when blank."""
    c = e.find(tag)
    if c is None:
        return None
    return c.text if c.text is not None else ''


class StoryView:
    __slots__ = ('id', 'elem', 'index', 'kids')

    def __init__(self, elem, index):
        self.elem = elem
        self.index = index          # child index inside roCreate
        self.id = child_text(elem, 'storyID')
        # kids: list of ('item', id, elem) | ('p', text, elem) | ('other', tag, elem)
        self.kids = []
        for c in elem:
            if c.tag == 'item':
                self.kids.append(('item', child_text(c, 'itemID'), c))
            elif c.tag == 'p':
                self.kids.append(('p', c.text, c))
            else:
                self.kids.append(('other', c.tag, c))

    @property
    def item_ids(self):
        return [k[1] for k in self.kids if k[0] == 'item']

    def items(self):
        return [k[2] for k in self.kids if k[0] == 'item']


class RoView:
    """Abstract view of a serialised running order."""

    def __init__(self, text, base='roCreate'):
        self.text = text
        self.root = read(text)
        self.bases = [c for c in self.root if c.tag == base]
        self.base = self.bases[0] if self.bases else None
        self.children = list(self.base) if self.base is not None else []
        self.stories = [StoryView(c, i) for i, c in enumerate(self.children) if c.tag == 'story']
        self.meta = [(i, c) for i, c in enumerate(self.children) if c.tag != 'story']

    @property
    def story_ids(self):
        return [s.id for s in self.stories]

    def story(self, sid):
        """First story whose ID equals sid (by equality; None/blank never match)."""
        if sid is None or sid == '':
            return None
        for s in self.stories:
            if s.id == sid:
                return s
        return None

    @property
    def completed(self):
        return any(c.tag == 'mosromgrmeta' for c in self.root)


def story_ids(text):
    return RoView(text).story_ids


def first_diff(a, b, path='/'):
    """Human-readable first structural difference between two nodes, or None."""
    if a == b:
        return None
    if a is None or b is None:
        return f'{path}: {"missing" if a is None else a[0]} vs {"missing" if b is None else b[0]}'
    if a[0] != b[0]:
        return f'{path}: tag {a[0]!r} vs {b[0]!r}'
    p = f'{path}{a[0]}'
    if a[1] != b[1]:
        return f'{p}: attrib {a[1]!r} vs {b[1]!r}'
    if a[2] != b[2]:
        return f'{p}: text {a[2]!r} vs {b[2]!r}'
    if a[3] != b[3]:
        return f'{p}: tail {a[3]!r} vs {b[3]!r}'
    if len(a[4]) != len(b[4]):
        return f'{p}: {len(a[4])} children {[c[0] for c in a[4]]} vs {len(b[4])} {[c[0] for c in b[4]]}'
    for i, (x, y) in enumerate(zip(a[4], b[4])):
        d = first_diff(x, y, f'{p}[{i}]/')
        if d:
            return d
    return f'{p}: differ'
