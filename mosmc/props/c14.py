"""C14 Every reachable running order serialises to XML that reads back identically."""
from .. import runner, spec
from ..harnesses import HMixed, HStory, HItem
from ..monitors import RoundTrip

RULE = ('H-MIXED closure to depth D under all 24 mergeable classes (incl. roReplace, roMetadataReplace, roStorySend, '
        'roDelete) from running orders whose texts and attributes carry markup-significant, non-BMP and combining '
        'characters; plus the H-STORY / H-ITEM graphs. State invariant on every expanded state s (a str(ro) produced by the '
        'implementation): MosFile.from_string(s) is a RunningOrder, str() of it equals s, exactly one roCreate and at most '
        'one mosromgrmeta under the root, message_id / ro_id are the roCreate\'s, completed == completion record present. '
        'On the spanning-tree edge of every newly discovered state: one-step bisimulation - every case of a reduced menu '
        'gives the same (document, exception, warnings) on the live object as on the re-read serialisation.')


def file_history_worker(ns, items, res, opts):
    """roCreate / roStorySend / roStoryAppend / roMetadataReplace / roReplace / roDelete read with from_file from
    files that hold comments, processing instructions and special characters: after every step the
    running order must serialise to a document that reads back identically - through from_string AND
    through from_file."""
    import os, shutil, tempfile, warnings
    from .. import gen, explore, tree
    prop = opts['prop']
    d = tempfile.mkdtemp(prefix='mosmc-c14-')
    try:
        def spice(text):
            # comments / PIs inside the message element, inside a story and between root children
            text = text.replace('<roID>', '<!-- a comment --><?pi data?><roID>', 1)
            text = text.replace('<storySlug>', '<!-- in a story --><storySlug>', 1)
            return text.replace('</mos>', '<!-- trailing --></mos>')
        for seq in items:
            msgs = {
                'create': gen.ro_text([gen.story_xml('A', 0, rich=True, body=(('p', 'unicode'), ('i', 'a'))), gen.story_xml('AB', 0)], 'between', gen.meta_elems(3)),
                'send': gen.msg_story_send('A', rich=True, body=(('p', 'unicode'), ('i', 'e')), msg_id=2001),
                'append': gen.msg_story_append([gen.story_xml('C', 0, rich=True)], msg_id=2002),
                'meta': gen.msg_metadata_replace(['<roSlug>new &amp; slug</roSlug>'], msg_id=2003),
                'replace': gen.msg_ro_replace([gen.story_xml('D', 1, rich=True)], 'after', gen.meta_elems(2, variant=1), msg_id=2004),
                'delete': gen.msg_ro_delete(msg_id=2005),
            }
            paths = {}
            for k, t in msgs.items():
                paths[k] = os.path.join(d, k + '.mos.xml')
                with open(paths[k], 'w', encoding='utf-8') as f:
                    f.write(spice(t))
            ro = ns.mt.MosFile.from_file(paths['create'])
            history = ['create']
            for step in ('',) + tuple(seq):
                if step:
                    with warnings.catch_warnings():
                        warnings.simplefilter('ignore')
                        try:
                            ro += ns.mt.MosFile.from_file(paths[step])
                        except ns.exc.MosMergeError:
                            pass
                    history.append(step)
                res.transitions += 1
                res.nontrivial += 1
                res.extra['states'] += 1
                res.extra['file_history_states'] += 1
                res.by_outcome['file-history'] += 1
                s1 = str(ro)
                out = os.path.join(d, 'state.xml')
                with open(out, 'w', encoding='utf-8') as f:
                    f.write(s1)
                for how, fn in (('from_string', lambda: ns.mt.MosFile.from_string(s1)), ('from_file', lambda: ns.mt.MosFile.from_file(out))):
                    try:
                        back = fn()
                        s2 = str(back)
                        ok = s2 == s1 and type(back).__name__ == 'RunningOrder' and bool(back.completed) == bool(ro.completed)
                    except Exception as e:  # noqa
                        ok, s2 = False, f'{type(e).__name__}: {e}'
                    if not ok:
                        explore.add_simple_finding(res, prop, f'FILE-HISTORY:{how}:not-identical-after:{history[-1]}',
                                                   f'history {history} read with from_file: the serialisation does not read back identically through {how}',
                                                   history=history, serialisation=s1[:600], read_back=str(s2)[:600])
                        break
    finally:
        shutil.rmtree(d, ignore_errors=True)


def odd_history_worker(ns, items, res, opts):
    """Histories on one live object that leave the running order in a state the ID-based harnesses exclude: stories that
    repeat a storyID (a re-sent roStoryAppend, an append / replace carrying an existing ID, blank storyIDs), roDeletes
    naming another or a blank roID.  After every step: the serialisation reads back as a RunningOrder with an identical
    serialisation, the same story IDs and item IDs, the same completed flag; one roCreate and at most one completion record."""
    import warnings
    import xml.etree.ElementTree as ET
    from .. import gen, explore
    prop = opts['prop']
    st = lambda i, v=0: gen.story_xml(i, v, rich=True, body=(('p', 'unicode'), ('i', 'a')))   # noqa
    pool = {
        'append-existing-A': lambda n: gen.msg_story_append([st('A', 1)], msg_id=n),
        'append-E': lambda n: gen.msg_story_append([st('E')], msg_id=n),
        'append-E-resent': lambda n: gen.msg_story_append([st('E')], msg_id=n),
        'append-two-blank-ids': lambda n: gen.msg_story_append([st(gen.BLANK), st(gen.BLANK, 1)], msg_id=n),
        'replace-C-by-A': lambda n: gen.msg_story_replace('C', [st('A', 2)], msg_id=n),
        'insert-before-C-E-E': lambda n: gen.msg_story_insert('C', [st('E', 3), st('E', 4)], msg_id=n),
        'roDelete-other-roID': lambda n: gen.msg_ro_delete(ro_id='ANOTHER-RO', msg_id=n),
        'roDelete-blank-roID': lambda n: gen.msg_ro_delete(ro_id='', msg_id=n),
        'roDelete': lambda n: gen.msg_ro_delete(msg_id=n),
        'metadata': lambda n: gen.msg_metadata_replace(['<roSlug>new &amp; slug</roSlug>'], msg_id=n),
    }
    for base_kind, seq, *entry in items:
        entry = entry[0] if entry else '+'
        ro_id = gen.RO_ID if base_kind == 'std' else ''
        base = gen.ro_text([st('A'), st('AB'), st('C')], 'between', gen.meta_elems(2), ro_id=ro_id)
        ro = ns.mt.MosFile.from_string(base)
        history = []
        for k, name in enumerate(('',) + tuple(seq)):
            if name:
                text = pool[name](3000 + k)
                if base_kind != 'std':
                    text = text.replace(f'<roID>{gen.RO_ID}</roID>', '<roID></roID>')
                if entry == 'merge' and ro.completed:
                    break       # the refusal of messages after completion belongs to `+`; the documented merge() has no such guard
                with warnings.catch_warnings():
                    warnings.simplefilter('ignore')
                    try:
                        if entry == 'merge':
                            ns.mt.MosFile.from_string(text).merge(ro)      # the documented method behind `+`
                        else:
                            ro += ns.mt.MosFile.from_string(text)
                    except ns.exc.MosMergeError:
                        pass
                history.append(name + ('' if entry == '+' else ' [msg.merge(ro)]'))
            res.transitions += 1
            res.nontrivial += 1
            res.extra['states'] += 1
            res.extra['odd_history_states'] += 1
            res.by_outcome['odd-history'] += 1
            bad = None
            try:
                s1 = str(ro)
                root = ET.fromstring(s1)
                back = ns.mt.MosFile.from_string(s1)
                s2 = str(back)
                ids1 = [(s.id, [i.id for i in (s.items or [])]) for s in ro.stories]
                ids2 = [(s.id, [i.id for i in (s.items or [])]) for s in back.stories]
                if type(back).__name__ != 'RunningOrder':
                    bad = ('class', f'reads back as {type(back).__name__}')
                elif s2 != s1:
                    bad = ('serialisation', 'the serialisation of the re-read running order differs')
                elif ids1 != ids2:
                    bad = ('stories', f'stories/items {ids1} read back as {ids2}')
                elif bool(back.completed) != bool(ro.completed):
                    bad = ('completed', f'completed {ro.completed} reads back as {back.completed}')
                elif len(root.findall('roCreate')) != 1:
                    bad = ('roCreate-count', f'{len(root.findall("roCreate"))} roCreate elements')
                elif len(root.findall('mosromgrmeta')) > 1 or len(root.findall('mosromgrmeta/roDelete')) > 1:
                    bad = ('completion-records', f'{len(root.findall("mosromgrmeta"))} completion records')
                elif bool(ro.completed) != (root.find('mosromgrmeta/roDelete') is not None):
                    bad = ('completed-vs-record', f'completed={ro.completed} but completion record present={root.find("mosromgrmeta/roDelete") is not None}')
            except Exception as e:  # noqa
                bad = (f'raised:{type(e).__name__}', f'{type(e).__name__}: {e}')
            if bad:
                explore.add_simple_finding(res, prop, f'ODD-HISTORY:{bad[0]}:after:{history[-1] if history else "start"}:roID={base_kind}',
                                           f'history {history} (running order with {"its usual" if base_kind == "std" else "a blank"} roID): {bad[1]}',
                                           history=history, base=base)
                break


def vacuity(by_kind, by_outcome, extra, by_class):
    probs = [f'message class {k} never exercised' for k in spec.ALL_KINDS if not by_kind.get(k)]
    for k in ('states_round_tripped', 'bisimulation_steps'):
        if not extra.get(k):
            probs.append(f'{k} == 0')
    return probs


def run(tier):
    if tier == 'quick':
        bis = HMixed(max_list=1, meta_subsets=1, story_L=1)
        parts = [
            {'label': 'mixed-depth0-rich+bisimulation', 'harness': HMixed(rich=True, max_list=1, story_L=2),
             'monitors': [RoundTrip(bis, per_kind=3)], 'opts': {'max_depth': 0}},
            {'label': 'mixed-depth1-rich', 'harness': HMixed(rich=True, max_list=1, story_L=1, layouts=('between',), meta_subsets=1),
             'monitors': [RoundTrip()], 'opts': {'max_depth': 1}},
            {'label': 'stories', 'harness': HStory(pool=4, cap=3, max_list=2, rich=True, layouts=('between',)),
             'monitors': [RoundTrip()]},
            {'label': 'items', 'harness': HItem(pool=4, cap=3, max_list=2, rich=True, patterns=('plain',), positions=('second',)),
             'monitors': [RoundTrip()]},
        ]
    else:
        bis = HMixed(max_list=1, meta_subsets=1, story_L=1)
        parts = [
            {'label': 'mixed-depth1-rich+bisimulation', 'harness': HMixed(rich=True, max_list=1, story_L=2),
             'monitors': [RoundTrip(bis, per_kind=6)], 'opts': {'max_depth': 1}},
            {'label': 'mixed-depth2-rich', 'harness': HMixed(rich=True, max_list=1, story_L=1, meta_subsets=1), 'monitors': [RoundTrip()],
             'opts': {'max_depth': 2, 'max_states': 100000}},
            {'label': 'stories', 'harness': HStory(pool=5, cap=4, max_list=2, rich=True), 'monitors': [RoundTrip()]},
            {'label': 'items', 'harness': HItem(pool=5, cap=4, max_list=2, rich=True, patterns=('plain', 'p-between')),
             'monitors': [RoundTrip()]},
        ]
    parts.append({'label': 'pretty-printed-running-orders', 'harness': HStory(pool=4, cap=3, max_list=1, rich=True, pretty_states=True, pretty_msgs=True,
                                                                               layouts=('between',)), 'monitors': [RoundTrip()], 'opts': {'max_depth': 1}})
    parts.append({'label': 'other-envelope', 'harness': HMixed(envelope='trailing', init_shapes=[('A', 'AB'), ('AB', 'A', 'C')], layouts=('before',), max_list=1, story_L=1, meta_subsets=1, rich=True), 'monitors': [RoundTrip(bis, per_kind=2)], 'opts': {'max_depth': 0}})
    import itertools
    steps = ('send', 'append', 'meta', 'replace', 'delete')
    seqs = [p for n in range(0, (3 if tier == 'quick' else 5) + 1) for p in itertools.permutations(steps, n)]
    enum_parts = [{'label': 'histories-read-with-from_file', 'worker': file_history_worker, 'items': seqs, 'chunk': 10}]
    odd = ('append-existing-A', 'append-E', 'append-E-resent', 'append-two-blank-ids', 'replace-C-by-A', 'insert-before-C-E-E',
           'roDelete-other-roID', 'roDelete-blank-roID', 'roDelete', 'metadata')
    odd_seqs = [(b, p) for b in ('std', 'blank') for n in range(0, (3 if tier == 'quick' else 4) + 1) for p in itertools.permutations(odd, n)]
    # the same histories (length <= 2) entered through the documented msg.merge(ro), the serialisation being read between the steps
    odd_seqs += [('std', p, 'merge') for n in range(1, 3) for p in itertools.permutations(odd, n)]
    enum_parts.append({'label': 'histories-with-repeated-IDs-and-foreign-roDeletes', 'worker': odd_history_worker, 'items': odd_seqs, 'chunk': 40})
    return runner.graph_check(
        'C14', tier, parts, rule=RULE + ' Plus: every history of up to 3 (thorough 5) messages over {roStorySend, roStoryAppend, '
        'roMetadataReplace, roReplace, roDelete} read with from_file from files holding comments and processing instructions: '
        'after every step the serialisation reads back identically through from_string and through from_file. Plus: every history of up to 3 (thorough 4) '
        'messages on one live object over {appends / inserts / replaces that repeat a storyID or carry blank storyIDs, a re-sent append, roDelete for this, another and a blank roID, '
        'roMetadataReplace}, from a running order with its usual and with a blank roID: read-back identity, story and item IDs, completed flag, one roCreate, at most one completion record; the histories of length <= 2 also through msg.merge(ro).',
        vacuity=vacuity, enum_parts=enum_parts,
        assumptions=['all messages of the graph parts are addressed to the running order\'s own roID (the repeated-ID / foreign-roDelete histories are the exception)',
                     'U+000D in text is outside the alphabet (xml.etree writes it raw and every reader normalises it)',
                     'soundness of text-canonicalised states rests on the bisimulation check reported here'])
