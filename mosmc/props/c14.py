"""C14 Every reachable running order serialises to XML that reads back identically."""
from .. import runner, spec
from ..harnesses import HMixed, HStory, HItem
from ..monitors import RoundTrip

RULE = ('H-MIXED closure to depth D under all 24 mergeable classes (incl. roReplace, roMetadataReplace, roStorySend, '
        'roDelete) from running orders whose texts and attributes carry markup-significant, non-BMP and combining '
        'characters; plus the H-STORY / H-ITEM graphs. State invariant on every expanded state s (a str(ro) produced by the '
        'implementation): MosFile.from_string(s) is a RunningOrder, str() of it equals s, exactly one roCreate and at most '
        'one mosromgrmeta under the root, message_id / ro_id are the roCreate\'s, completed == completion record present. '
        'On the spanning-tree edge of every newly discovered state: one-step bisimulation - every case of a reduced menu '
        'gives the same (document, exception, warnings) on the live object as on the re-read serialisation.')


def vacuity(by_kind, by_outcome, extra, by_class):
    probs = [f'message class {k} never exercised' for k in spec.ALL_KINDS if not by_kind.get(k)]
    for k in ('states_round_tripped', 'bisimulation_steps'):
        if not extra.get(k):
            probs.append(f'{k} == 0')
    return probs


def run(tier):
    if tier == 'quick':
        bis = HMixed(max_list=1, meta_subsets=1, story_L=1)
        parts = [
            {'label': 'mixed-depth0-rich+bisimulation', 'harness': HMixed(rich=True, max_list=1, story_L=2),
             'monitors': [RoundTrip(bis, per_kind=3)], 'opts': {'max_depth': 0}},
            {'label': 'mixed-depth1-rich', 'harness': HMixed(rich=True, max_list=1, story_L=1, layouts=('between',), meta_subsets=1),
             'monitors': [RoundTrip()], 'opts': {'max_depth': 1}},
            {'label': 'stories', 'harness': HStory(pool=4, cap=3, max_list=2, rich=True, layouts=('between',)),
             'monitors': [RoundTrip()]},
            {'label': 'items', 'harness': HItem(pool=4, cap=3, max_list=2, rich=True, patterns=('plain',), positions=('second',)),
             'monitors': [RoundTrip()]},
        ]
    else:
        bis = HMixed(max_list=1, meta_subsets=1, story_L=1)
        parts = [
            {'label': 'mixed-depth1-rich+bisimulation', 'harness': HMixed(rich=True, max_list=1, story_L=2),
             'monitors': [RoundTrip(bis, per_kind=6)], 'opts': {'max_depth': 1}},
            {'label': 'mixed-depth2-rich', 'harness': HMixed(rich=True, max_list=1, story_L=1, meta_subsets=1), 'monitors': [RoundTrip()],
             'opts': {'max_depth': 2, 'max_states': 100000}},
            {'label': 'stories', 'harness': HStory(pool=5, cap=4, max_list=2, rich=True), 'monitors': [RoundTrip()]},
            {'label': 'items', 'harness': HItem(pool=5, cap=4, max_list=2, rich=True, patterns=('plain', 'p-between')),
             'monitors': [RoundTrip()]},
        ]
    parts.append({'label': 'pretty-printed-running-orders', 'harness': HStory(pool=4, cap=3, max_list=1, rich=True, pretty_states=True, pretty_msgs=True,
                                                                               layouts=('between',)), 'monitors': [RoundTrip()], 'opts': {'max_depth': 1}})
    parts.append({'label': 'other-envelope', 'harness': HMixed(envelope='trailing', init_shapes=[('A', 'AB'), ('AB', 'A', 'C')], layouts=('before',), max_list=1, story_L=1, meta_subsets=1, rich=True), 'monitors': [RoundTrip(bis, per_kind=2)], 'opts': {'max_depth': 0}})
    return runner.graph_check(
        'C14', tier, parts, rule=RULE, vacuity=vacuity,
        assumptions=['all messages are addressed to the running order\'s own roID',
                     'U+000D in text is outside the alphabet (xml.etree writes it raw and every reader normalises it)',
                     'soundness of text-canonicalised states rests on the bisimulation check reported here'])
