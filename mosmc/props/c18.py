"""C18 File, string, bytes and S3 sources are interchangeable; readers are faithful."""
import os
import shutil
import tempfile
import itertools

from .. import runner, explore, coll, gen
from .c08 import canonical_docs
from .c09 import run_collection

RULE = ('(A) one canonical document per concrete class (25) + pretty-printed + Unicode/special-character + white-space-padded roID/mosID variants x {file, str, '
        'bytes, fake S3 object}: same class, same str(), and a MosReader over each (from_string / from_file / from_s3) reports the message ID, running-order ID and class of the object it restores; documents stored in a declared ISO-8859-1 / UTF-16 / UTF-8 encoding with non-ASCII content x {bytes, file, S3 object}; (B) collections of <= 4 messages through the three constructors: '
        'same merged str(mc); every reader reports message_id / ro_id / mos_type of the object it restores, two '
        'restorations are distinct objects with equal str(), equal to a direct parse of the original text; (C) bucket '
        'listings: every composition of k <= K keys into result pages x every subset of keys carrying the suffix x prefix '
        '{none, empty, non-empty with foreign keys outside it} x default/custom suffix, and the empty bucket (one page '
        'without Contents): get_mos_files returns exactly the keys under the prefix with the suffix (as a multiset; the order is not part of the statement). '
        'Non-trivial = every case except the canonical compact document read from a string.')


def compositions(n):
    """All ways to cut range(n) into consecutive non-empty pages."""
    if n == 0:
        yield []
        return
    for cuts in itertools.product((0, 1), repeat=n - 1):
        pages, cur = [], [0]
        for i, c in enumerate(cuts, start=1):
            if c:
                pages.append(cur)
                cur = [i]
            else:
                cur.append(i)
        pages.append(cur)
        yield pages


def items_for(tier):
    items = []
    canon = canonical_docs()
    uni = gen.SPECIAL
    for cls, text in canon.items():
        items.append(('doc', cls, 'compact', text))
        items.append(('doc', cls, 'pretty', gen.prettify(text)))
        items.append(('doc', cls, 'unicode', text.replace('<mosID>m.os</mosID>', f'<mosID>{gen.escape(uni)}</mosID>', 1)
                      .replace('<roID>RO1</roID>', f'<roID>RO1 {gen.escape(uni)}</roID>')))
        items.append(('doc', cls, 'xml-declaration', '<?xml version="1.0" encoding="UTF-8"?>\n' + text))
        # the text of the envelope fields is surrounded by white space (a sender that puts text on its own line)
        items.append(('doc', cls, 'padded-envelope', text.replace('<roID>RO1</roID>', '<roID>\n    RO1\n  </roID>')
                      .replace('<mosID>m.os</mosID>', '<mosID> m.os </mosID>', 1)))
    # documents stored in a declared non-UTF-8 encoding (bytes / file / S3 object hold the same bytes)
    for cls in ('RunningOrder', 'StoryAppend', 'StorySend', 'EAItemInsert', 'RunningOrderReplace', 'MetaDataReplace'):
        text = canon[cls].replace('<mosID>m.os</mosID>', '<mosID>caf\u00e9 \u00a35</mosID>', 1)
        for enc in ('ISO-8859-1', 'UTF-16', 'UTF-8'):
            data = (f'<?xml version="1.0" encoding="{enc}"?>' + text).encode(enc.lower().replace('utf-16', 'utf-16'))
            items.append(('bytesdoc', cls, enc, data))
    names = list(coll.pool_messages())
    L = 3 if tier == 'quick' else 4
    for n in range(0, L + 1):
        for seq in itertools.permutations(names[:7] if tier == 'quick' else names[:10], n):
            items.append(('coll', seq))
    K = 5 if tier == 'quick' else 7
    for k in range(0, K + 1):
        for pages in compositions(k):
            for mask in range(2 ** k):
                if k > 5 and bin(mask).count('1') not in (0, 1, k - 1, k) and mask % 7:
                    continue
                for prefix in (None, '', 'pre/'):
                    for suffix in (None, '.xml'):
                        items.append(('list', k, pages, mask, prefix, suffix))
    return items


def worker(ns, items, res, opts):
    prop = opts['prop']
    tmp = tempfile.mkdtemp(prefix='mosmc-c18-')
    store = coll.FakeS3()
    store.install(ns)
    pool = coll.pool_messages()
    try:
        for it in items:
            res.transitions += 1
            if it[0] == 'doc':
                _, cls, variant, text = it
                if variant != 'compact':
                    res.nontrivial += 1
                path = os.path.join(tmp, 'd.mos.xml')
                with open(path, 'w', encoding='utf-8') as f:
                    f.write(text)
                store.objects = {}
                store.put('b', 'k.mos.xml', text)
                got = {}
                for src, fn in (('str', lambda: ns.mt.MosFile.from_string(text)),
                                ('bytes', lambda: ns.mt.MosFile.from_string(text.encode('utf-8'))),
                                ('file', lambda: ns.mt.MosFile.from_file(path)),
                                ('pathlib', lambda: ns.mt.MosFile.from_file(__import__('pathlib').Path(path))),
                                ('s3', lambda: ns.mt.MosFile.from_s3('b', 'k.mos.xml'))):
                    try:
                        o = fn()
                        got[src] = (type(o).__name__, str(o))
                    except Exception as e:  # noqa
                        got[src] = ('EXC:' + type(e).__name__, str(e)[:80])
                res.by_class[f'doc:{variant}'] += 1
                res.by_outcome[got['str'][0]] += 1
                if got['str'][0] != cls:
                    explore.add_simple_finding(res, prop, f'doc:{cls}:{variant}:class', f'{cls} ({variant}) read from a string is {got["str"][0]}: {got["str"][1][:100]}', document=text)
                for src, v in got.items():
                    if v != got['str']:
                        what = 'class' if v[0] != got['str'][0] else 'serialisation'
                        explore.add_simple_finding(res, prop, f'doc:{src}-vs-str:{what}:{variant}',
                                                   f'{cls} ({variant}): from {src} gives {v[0]}, from str {got["str"][0]}' + ('' if what == 'class' else '; str() differs'),
                                                   document=text)
                        break
                # a collection reader over the same document reports what the object it restores reports
                for how, fn in (('from_string', lambda: ns.mc.MosReader.from_string(text)),
                                ('from_file', lambda: ns.mc.MosReader.from_file(path)),
                                ('from_s3', lambda: ns.mc.MosReader.from_s3('b', 'k.mos.xml'))):
                    if got['str'][0] != cls:
                        break
                    try:
                        mr = fn()
                        o = mr.mos_object
                        said, has = (mr.message_id, mr.ro_id, mr.mos_type.__name__), (o.message_id, o.ro_id, type(o).__name__)
                    except Exception as e:  # noqa
                        explore.add_simple_finding(res, prop, f'doc-reader:{how}:raised:{type(e).__name__}:{variant}',
                                                   f'{cls} ({variant}): MosReader.{how} raised {type(e).__name__}: {e}', document=text)
                        break
                    res.extra['doc_readers'] += 1
                    if said != has or str(o) != got['str'][1]:
                        explore.add_simple_finding(res, prop, f'doc-reader:{how}:{"metadata" if said != has else "restored-differs"}:{variant}',
                                                   f'{cls} ({variant}): MosReader.{how} reports {said}, the object it restores has {has}'
                                                   if said != has else f'{cls} ({variant}): the object restored by MosReader.{how} serialises differently from a direct read',
                                                   document=text)
                        break
            elif it[0] == 'bytesdoc':
                _, cls, enc, data = it
                res.nontrivial += 1
                path = os.path.join(tmp, 'b.mos.xml')
                with open(path, 'wb') as f:
                    f.write(data)
                store.objects = {}
                store.put('b', 'k.mos.xml', data)
                got = {}
                for src, fn in (('bytes', lambda: ns.mt.MosFile.from_string(data)),
                                ('file', lambda: ns.mt.MosFile.from_file(path)),
                                ('s3', lambda: ns.mt.MosFile.from_s3('b', 'k.mos.xml'))):
                    try:
                        o = fn()
                        got[src] = (type(o).__name__, str(o))
                    except Exception as e:  # noqa
                        got[src] = ('EXC:' + type(e).__name__, str(e)[:80])
                res.by_class[f'bytesdoc:{enc}'] += 1
                res.by_outcome[got['bytes'][0]] += 1
                if got['bytes'][0] != cls or 'caf\u00e9' not in got['bytes'][1]:
                    explore.add_simple_finding(res, prop, f'bytesdoc:{enc}:bytes', f'{cls} stored as {enc}: from bytes gives {got["bytes"][0]}: {got["bytes"][1][:80]}')
                for src, v in got.items():
                    if v != got['bytes']:
                        explore.add_simple_finding(res, prop, f'bytesdoc:{src}-vs-bytes:{enc}',
                                                   f'{cls} stored as {enc}: from {src} gives {v[0]} ({v[1][:60]!r}), from bytes {got["bytes"][0]}')
                        break
            elif it[0] == 'coll':
                seq = it[1]
                res.nontrivial += 1
                texts = [pool[name](2000 + 10 * k) for k, name in enumerate(seq)]
                ro_text = coll.base_ro()
                outs = {c: run_collection(ns, c, ro_text, texts, False, tmp, store) for c in ('strings', 'files', 's3')}
                res.by_class['coll:n=%d' % len(seq)] += 1
                res.by_outcome['collection'] += 1
                for c in ('files', 's3'):
                    if (outs[c]['text'], outs[c]['exc'], outs[c]['reader_ids']) != (outs['strings']['text'], outs['strings']['exc'], outs['strings']['reader_ids']):
                        explore.add_simple_finding(res, prop, f'coll:{c}-vs-strings',
                                                   f'sequence {list(seq)}: from_{c} gives exc={outs[c]["exc"]} readers={outs[c]["reader_ids"]}, '
                                                   f'from_strings exc={outs["strings"]["exc"]} readers={outs["strings"]["reader_ids"]}'
                                                   + ('' if outs[c]['text'] == outs['strings']['text'] else '; merged documents differ'),
                                                   sequence=list(seq))
                        break
                # readers are faithful
                docs = [ro_text] + texts
                try:
                    by_id = {ns.mt.MosFile.from_string(d).message_id: d for d in docs}
                except Exception as e:  # noqa
                    explore.add_simple_finding(res, prop, f'doc:str:raised:{type(e).__name__}', f'a pool message no longer reads from a string: {type(e).__name__}: {e}', sequence=list(seq))
                    continue
                paths = []
                store.objects = {}
                for k, d in enumerate(docs):
                    p = os.path.join(tmp, f'r{k}.mos.xml')
                    with open(p, 'wb') as f:
                        f.write(coll.to_bytes(d))
                    paths.append(p)
                    store.put('rb', f'r{k}.mos.xml', d)
                readers = []
                failed = None
                for how, fn in ([('from_string', (lambda d=d: ns.mc.MosReader.from_string(d))) for d in docs] +
                                [('from_file', (lambda p=p: ns.mc.MosReader.from_file(p))) for p in paths] +
                                [('from_s3', (lambda k=k: ns.mc.MosReader.from_s3('rb', f'r{k}.mos.xml'))) for k in range(len(docs))]):
                    try:
                        readers.append((how, fn()))
                    except Exception as e:  # noqa
                        failed = (how, e)
                        break
                if failed:
                    explore.add_simple_finding(res, prop, f'reader:{failed[0]}:raised:{type(failed[1]).__name__}',
                                               f'MosReader.{failed[0]} over {list(seq)} raised {type(failed[1]).__name__}: {failed[1]} '
                                               f'(the same document reads fine from the other sources)', sequence=list(seq))
                    continue
                for how, mr in readers:
                    res.extra['readers'] += 1
                    o1, o2 = mr.mos_object, mr.mos_object
                    direct = ns.mt.MosFile.from_string(by_id[o1.message_id]) if o1.message_id in by_id else None
                    prob = None
                    if mr.message_id != o1.message_id or mr.ro_id != o1.ro_id or mr.mos_type is not type(o1):
                        prob = ('metadata', f'reader says ({mr.message_id}, {mr.ro_id}, {mr.mos_type.__name__}), restored object is '
                                            f'({o1.message_id}, {o1.ro_id}, {type(o1).__name__})')
                    elif o1 is o2 or o1.xml is o2.xml:
                        prob = ('not-fresh', 'two restorations are the same object')
                    elif str(o1) != str(o2):
                        prob = ('restorations-differ', 'two restorations serialise differently')
                    elif direct is None or str(direct) != str(o1) or type(direct) is not type(o1):
                        prob = ('differs-from-original', 'restored object differs from a direct parse of the original text')
                    else:
                        # what is done to one restored object must not show in the next restoration
                        try:
                            if type(o1).__name__ == 'RunningOrder':
                                o1 + ns.mt.MosFile.from_string(gen.msg_story_append([gen.story_xml('G', 0)], msg_id=9000))
                            for el in list(o1.base_tag)[:2]:
                                el.text = 'scribbled'
                        except Exception:  # noqa
                            pass
                        o3 = mr.mos_object
                        if str(o3) != str(direct):
                            prob = ('restoration-sees-earlier-changes', 'a restored object was changed (merged into / edited); the next restoration is no longer equal to the original')
                    if prob:
                        explore.add_simple_finding(res, prop, f'reader:{how}:{prob[0]}', f'MosReader.{how} over {list(seq)}: {prob[1]}', sequence=list(seq))
                        break
            else:
                _, k, pages, mask, prefix, suffix = it
                res.nontrivial += 1
                sfx = suffix or '.mos.xml'
                keys = []
                for i in range(k):
                    base = f'pre/k{i}' if i % 3 != 2 else f'other/k{i}'
                    keys.append(base + (sfx if mask >> i & 1 else '.txt' if i % 2 else sfx + '.bak'))
                store.objects = {('lb', key): b'x' for key in keys}
                store.pages['lb'] = [[keys[i] for i in page] for page in pages]
                kw = {}
                if suffix is not None:
                    kw['suffix'] = suffix
                try:
                    if prefix is None:
                        got = ns.s3mod.get_mos_files('lb', **kw)
                    else:
                        got = ns.s3mod.get_mos_files('lb', prefix, **kw)
                except Exception as e:  # noqa
                    got = 'EXC:' + type(e).__name__ + ':' + str(e)[:60]
                want = [key for key in keys if key.startswith(prefix or '') and key.endswith(sfx)]
                res.by_class[f'list:k={k}'] += 1
                res.by_outcome['listing:%s' % ('empty' if not want else 'nonempty')] += 1
                # the statement fixes WHICH keys are returned, not their order or the container type
                try:
                    same = sorted(list(got)) == sorted(want) if not isinstance(got, str) else False
                except TypeError:
                    same = False
                if not same:
                    npages = len(pages)
                    explore.add_simple_finding(res, prop, f'listing:pages={"1" if npages <= 1 else "many"}:prefix={"none" if not prefix else "set"}:suffix={"default" if suffix is None else "custom"}',
                                               f'keys {keys} in pages {pages}, prefix={prefix!r}, suffix={suffix!r}: got {got}, expected {want}',
                                               keys=keys, pages=pages, prefix=prefix, suffix=suffix)
            if len(res.samples) < 2 and (res.transitions + opts.get('seed', 0)) % 41 == 0:
                res.samples.append([str(x)[:200] for x in it])
    finally:
        shutil.rmtree(tmp, ignore_errors=True)


def vacuity(tot):
    probs = []
    for k in ('doc:compact', 'doc:unicode', 'coll:n=2', 'list:k=3'):
        if not tot.by_class.get(k):
            probs.append(f'no case of family {k}')
    if not tot.extra.get('readers'):
        probs.append('no reader checked')
    return probs


def run(tier):
    items = items_for(tier)
    parts = [{'label': 'sources', 'worker': worker, 'items': items, 'chunk': 100}]
    return runner.enum_check(
        'C18', tier, parts, rule=RULE, vacuity=vacuity,
        assumptions=['the fake S3 implements only documented boto3 behaviour: list_objects pagination filtered by Prefix, an empty '
                     'listing being one page without Contents, Object.get()["Body"].read() returning bytes',
                     'files are written as UTF-8'])
