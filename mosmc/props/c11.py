"""C11 A collection is accepted exactly when it describes one running order."""
import os
import sys
import json
import time
import itertools
import subprocess

from .. import runner, explore, coll, gen, target, findings, evidence

RULE = ('All multisets with c in 0..3 roCreates, d in 0..3 roDeletes, o in 0..2 others (a roStoryAppend and a roReplace, '
        'which subclasses RunningOrder), running-order ID uniform or differing - another ID, or a blank one - in exactly one member (each member in turn), '
        'the empty list, x allow_incomplete in {False, True} x two supply orders x message-ID layout {grouped by type, types interleaved in '
        'message-ID order, repeated roCreates/roDeletes being the very same document}, enumerated completely inside a fresh '
        'interpreter per flag set {python, python -O}. Oracle: accepted <=> uniform ID and c == 1 and d <= 1 and '
        '(allow_incomplete or d == 1); rejection is InvalidMosCollection (never IndexError/AssertionError); on acceptance '
        'mc.ro.message_id is the roCreate\'s and the readers are exactly the other messages. Non-trivial = any list other '
        'than {1 roCreate, 1 roDelete, uniform ID}.')


def cases(tier):
    cmax = 3
    omax = 2
    for c in range(0, cmax + 1):
        for d in range(0, cmax + 1):
            for o in range(0, omax + 1):
                n = c + d + o
                for odd in [None] + list(range(n)) + [-1 - k for k in range(n)]:     # -1-k: member k carries a BLANK roID
                    for allow in (False, True):
                        for rev in (False, True):
                            if rev and n < 2:
                                continue
                            yield (c, d, o, odd, allow, rev, 'grouped')
                            if n >= 3 and (c >= 2 or d >= 2):
                                # the same multiset with the message IDs laid out so that, in message-ID order, members of one
                                # type are separated by members of another type
                                yield (c, d, o, odd, allow, rev, 'interleaved')
                            if odd is None and (c >= 2 or d >= 2):
                                # the repeated roCreates / roDeletes are the very same document (same text, path content, key content)
                                yield (c, d, o, odd, allow, rev, 'identical')


def _interleave(kinds):
    groups = {}
    for k in kinds:
        groups.setdefault(k, []).append(k)
    order = []
    while any(groups.values()):
        for k in list(groups):
            if groups[k]:
                order.append(groups[k].pop())
    return order


def build(c, d, o, odd, rev, layout='grouped'):
    docs = []
    mid = 100
    kinds = ['create'] * c + ['delete'] * d + (['append', 'replace'][:o])
    if layout == 'interleaved':
        for k, kind in enumerate(_interleave(kinds)):
            rid = 'RO-OTHER' if odd == k else '' if odd == -1 - k else gen.RO_ID
            mid += 7
            text = {'create': lambda: gen.ro_text([gen.story_xml('A', 0)], ro_id=rid, msg_id=mid),
                    'delete': lambda: gen.msg_ro_delete(ro_id=rid, msg_id=mid),
                    'append': lambda: gen.msg_story_append([gen.story_xml('E', 0)], ro_id=rid, msg_id=mid),
                    'replace': lambda: gen.msg_ro_replace([gen.story_xml('C', 0)], ro_id=rid, msg_id=mid)}[kind]()
            docs.append((mid, kind, text))
        if rev:
            docs.reverse()
        return docs
    for k, kind in enumerate(kinds):
        rid = 'RO-OTHER' if odd == k else '' if odd == -1 - k else gen.RO_ID
        if not (layout == 'identical' and k > 0 and kinds[k - 1] == kind):
            mid += 7
        if kind == 'create':
            docs.append((mid, kind, gen.ro_text([gen.story_xml('A', 0)], ro_id=rid, msg_id=mid)))
        elif kind == 'delete':
            docs.append((mid + 500, kind, gen.msg_ro_delete(ro_id=rid, msg_id=mid + 500)))
        elif kind == 'append':
            docs.append((mid + 200, kind, gen.msg_story_append([gen.story_xml('E', 0)], ro_id=rid, msg_id=mid + 200)))
        else:
            docs.append((mid + 300, kind, gen.msg_ro_replace([gen.story_xml('C', 0)], ro_id=rid, msg_id=mid + 300)))
    if rev:
        docs.reverse()
    return docs


def child(tier):
    """Runs inside the interpreter under test; prints one JSON document."""
    import tempfile, shutil
    ns = target.load()
    out = {'optimize': sys.flags.optimize, 'n': 0, 'accepted': 0, 'rejected': 0, 'nontrivial': 0, 'findings': [], 'samples': [],
           'other_constructors': 0}
    seen = set()
    store = coll.FakeS3()
    store.install(ns)
    tmpd = tempfile.mkdtemp(prefix='mosmc-c11-')
    for (c, d, o, odd, allow, rev, layout) in cases(tier):
        docs = build(c, d, o, odd, rev, layout)
        uniform = odd is None or (c + d + o) == 1    # a single member always shares 'one' ID
        expect = uniform and c == 1 and d <= 1 and (allow or d == 1)
        out['n'] += 1
        if not (c == 1 and d == 1 and uniform):
            out['nontrivial'] += 1
        try:
            mc = ns.mc.MosCollection.from_strings([t for _, _, t in docs], allow_incomplete=allow)
            res = 'accepted'
        except ns.exc.InvalidMosCollection:
            res = 'InvalidMosCollection'
        except Exception as e:  # noqa
            res = 'BUILTIN:' + type(e).__name__
        # the other two constructors must give the same verdict
        if not rev:
            texts = [t for _, _, t in docs]
            for ctor in ('files', 's3'):
                try:
                    if ctor == 'files':
                        paths = []
                        for k, t in enumerate(texts):
                            pth = os.path.join(tmpd, f'c{k}.mos.xml')
                            open(pth, 'w', encoding='utf-8').write(t)
                            paths.append(pth)
                        ns.mc.MosCollection.from_files(paths, allow_incomplete=allow)
                    else:
                        store.objects = {}
                        store.pages = {}
                        for k, t in enumerate(texts):
                            store.put('b11', f'p/{k}.mos.xml', t)
                        ns.mc.MosCollection.from_s3(bucket_name='b11', prefix='p/', allow_incomplete=allow)
                    r2 = 'accepted'
                except ns.exc.InvalidMosCollection:
                    r2 = 'InvalidMosCollection'
                except Exception as e:  # noqa
                    r2 = 'BUILTIN:' + type(e).__name__
                out['other_constructors'] += 1
                if r2 != res and f'ctor:{ctor}' not in seen:
                    seen.add(f'ctor:{ctor}')
                    out['findings'].append({'sig': f'O={sys.flags.optimize}:constructor-{ctor}-differs', 'count': 1,
                                            'detail': f'python -O={sys.flags.optimize}: list with {c} roCreate, {d} roDelete, {o} other, odd-ID member={odd}, '
                                                      f'allow_incomplete={allow}: from_strings says {res}, from_{ctor} says {r2}',
                                            'documents': texts, 'allow_incomplete': allow, 'optimize': sys.flags.optimize})
            # the plain constructor over a list of readers, twice over the SAME list object: the verdict
            # must not depend on the list having been used before
            try:
                readers = [ns.mc.MosReader.from_string(t) for t in texts]
            except Exception:  # noqa
                readers = None
            if readers is not None and len(readers) > 0:
                verdicts = []
                for _ in range(2):
                    try:
                        ns.mc.MosCollection(sorted(readers) if _ < 0 else readers, allow_incomplete=allow)
                        verdicts.append('accepted')
                    except ns.exc.InvalidMosCollection:
                        verdicts.append('InvalidMosCollection')
                    except Exception as e:  # noqa
                        verdicts.append('BUILTIN:' + type(e).__name__)
                out['other_constructors'] += 2
                if (verdicts[0] != res or verdicts[1] != res) and 'ctor:direct' not in seen:
                    seen.add('ctor:direct')
                    out['findings'].append({'sig': f'O={sys.flags.optimize}:constructor-direct-differs', 'count': 1,
                                            'detail': f'python -O={sys.flags.optimize}: list with {c} roCreate, {d} roDelete, {o} other, odd-ID member={odd}, '
                                                      f'allow_incomplete={allow}: from_strings says {res}, MosCollection(readers) called twice on one list says {verdicts}',
                                            'documents': texts, 'allow_incomplete': allow, 'optimize': sys.flags.optimize})
        sig = None
        if expect and res != 'accepted':
            sig = f'valid-rejected:{res}'
        elif not expect and res == 'accepted':
            why = 'mixed-ids' if not uniform else f'c={min(c, 2)}' if c != 1 else f'd={d},allow={allow}'
            sig = f'invalid-accepted:{why}'
        elif not expect and res != 'InvalidMosCollection':
            sig = f'rejected-with:{res}:' + ('empty' if c + d + o == 0 else 'nonempty')
        elif expect:
            want_ro = [m for m, k, _ in docs if k == 'create'][0]
            want_readers = sorted(m for m, k, _ in docs if k != 'create')
            if mc.ro.message_id != want_ro or type(mc.ro).__name__ != 'RunningOrder':
                sig = 'accepted:wrong-running-order'
            elif sorted(mr.message_id for mr in mc.mos_readers) != want_readers:
                sig = 'accepted:readers-differ'
        out['accepted' if res == 'accepted' else 'rejected'] += 1
        if sig:
            sig = f'O={sys.flags.optimize}:' + sig if sys.flags.optimize else sig
            if sig not in seen:
                seen.add(sig)
                out['findings'].append({'sig': sig, 'count': 1,
                                        'detail': f'python -O={sys.flags.optimize}: list with {c} roCreate, {d} roDelete, {o} other, '
                                                  f'odd-ID member={odd}, allow_incomplete={allow}, reversed={rev}: result {res}, expected '
                                                  f'{"accepted" if expect else "InvalidMosCollection"}',
                                        'documents': [t for _, _, t in docs], 'allow_incomplete': allow, 'optimize': sys.flags.optimize})
            else:
                for f in out['findings']:
                    if f['sig'] == sig:
                        f['count'] += 1
        if len(out['samples']) < 3 and (c, d, o) in ((1, 1, 1), (2, 1, 0), (1, 0, 2)) and odd is None and not rev:
            out['samples'].append({'roCreates': c, 'roDeletes': d, 'others': o, 'allow_incomplete': allow, 'result': res, 'optimize': sys.flags.optimize})
    shutil.rmtree(tmpd, ignore_errors=True)
    json.dump(out, sys.stdout)


def run(tier):
    t0 = time.time()
    target.load()
    env = dict(os.environ)
    env['PYTHONPATH'] = os.path.dirname(os.path.dirname(os.path.dirname(os.path.abspath(__file__))))
    env['PYTHONDONTWRITEBYTECODE'] = '1'
    results = []
    for flags in ([], ['-O'], ['-OO']) if tier == 'thorough' else ([], ['-O']):
        p = subprocess.run([sys.executable] + flags + ['-m', 'mosmc.props.c11', '--child', tier], env=env,
                           capture_output=True, text=True, timeout=600)
        if p.returncode != 0:
            print(f'HARNESS-ERROR C11: child interpreter {flags} failed: {p.stderr[-500:]}')
            return 3
        r = json.loads(p.stdout)
        r['flags'] = flags
        if (r['optimize'] > 0) != bool(flags):
            print('HARNESS-ERROR C11: child interpreter did not run with the requested flags')
            return 3
        results.append(r)
    flist = []
    for r in results:
        for f in r['findings']:
            f['property'] = 'C11'
            flist.append(f)
    nv, nk = findings.report('C11', flist)
    n = sum(r['n'] for r in results)
    coverage = {
        'evaluations': n,
        'distinct_nontrivial': sum(r['nontrivial'] for r in results),
        'rule': RULE,
        'samples': [s for r in results for s in r['samples']][:6],
        'exhaustive': True,
        'interpreters': [{'flags': r['flags'], 'sys.flags.optimize': r['optimize'], 'collections': r['n'],
                          'accepted': r['accepted'], 'rejected': r['rejected'], 'verdicts_compared_through_from_files_and_from_s3': r.get('other_constructors', 0)} for r in results],
        'violation_signatures': nv, 'known_finding_signatures': nk, 'repo': target.REPO,
    }
    wall = time.time() - t0
    evidence.write('C11', tier, runner.seed(), 'exploration', coverage, wall, nv,
                   ['the oracle is applied to from_strings; from_files and from_s3 (fake bucket) must give the same verdict on every list in its first supply order'])
    print(f'C11 [{tier}] evaluations={n} violations={nv} known={nk} wall={wall:.1f}s')
    if nv:
        return 1
    if any(r['accepted'] == 0 or r['rejected'] == 0 for r in results):
        print('HARNESS-ERROR C11: one interpreter accepted nothing or rejected nothing')
        return 3
    return 0


if __name__ == '__main__':
    if len(sys.argv) > 2 and sys.argv[1] == '--child':
        child(sys.argv[2])
