"""C15 Read accessors never raise and agree with the XML in every reachable state."""
from .. import runner
from ..harnesses import HEnum, HMixed, HStory, accessor_states
from ..monitors import Accessors

RULE = ('(1) H-ENUM: all running orders with n <= 3 stories x timing kind per story {StoryDuration, Text+MediaTime, metadata '
        'without timing, metadata without a mosPayload, no metadata} x 0..2 items per story carrying the subsets of the optional item fields {slug, objID, '
        'objType, mosID, note} x story slug present/absent x roEdStart {present, empty, absent}; (2) H-MIXED: every state '
        'reached from the initial shapes (mixed timing metadata, stories without durations) by every message of all 24 '
        'classes, to depth D, incl. inserts/appends/replaces/sends of stories with and without timing metadata; (3) the '
        'H-STORY closure over stories without any timing metadata. Monitor (every state): every documented read accessor '
        'of RunningOrder / Story / Item returns without raising; stories and items are listed in document order with the '
        'IDs, slugs, objID/objType/mosID and notes read independently from the XML; absent optional data yields None.')


def vacuity(by_kind, by_outcome, extra, by_class):
    probs = []
    if extra.get('states_checked', 0) < 1000:
        probs.append(f"only {extra.get('states_checked', 0)} states checked")
    if not extra.get('states_checked_after_transition'):
        probs.append('no state reached by a merge was checked')
    return probs


def run(tier):
    mon = [Accessors()]
    if tier == 'quick':
        parts = [
            {'label': 'enumerated-shapes', 'harness': HEnum(accessor_states(max_n=2, kinds=('dur', 'both', 'none', 'nometa', 'nopayload')), 'accessors'), 'monitors': mon},
            {'label': 'mixed-depth1', 'harness': HMixed(max_list=1, story_L=1, meta_subsets=1), 'monitors': mon, 'opts': {'max_depth': 0}},
            {'label': 'stories-without-timing', 'harness': HStory(pool=4, cap=3, max_list=1, timing={'A': 'nometa', 'AB': 'none', 'C': 'dur', 'D': 'nometa'},
                                                                 layouts=('before',), no_expand=()), 'monitors': mon},
        ]
    else:
        parts = [
            {'label': 'enumerated-shapes', 'harness': HEnum(accessor_states(max_n=3, kinds=('dur', 'both', 'none', 'nometa', 'nopayload')), 'accessors'), 'monitors': mon},
            {'label': 'mixed-depth2', 'harness': HMixed(max_list=1, story_L=1, meta_subsets=1), 'monitors': mon, 'opts': {'max_depth': 1, 'max_states': 4000, 'time_cap': 1200}},
            {'label': 'stories-without-timing', 'harness': HStory(pool=5, cap=4, max_list=2, timing={'A': 'nometa', 'AB': 'none', 'C': 'dur', 'D': 'nometa', 'E': 'both'},
                                                                 layouts=('before', 'between'), no_expand=()), 'monitors': mon},
        ]
    return runner.graph_check(
        'C15', tier, parts, rule=RULE, vacuity=vacuity,
        assumptions=['stories have a storyID and items an itemID; roSlug is present (required by MOS); durations are numeric and times ISO-8601 with a date where present',
                     'one mosExternalMetadata block per story/item'])
