"""C19 The command line reports and writes exactly what the library computes."""
import io
import os
import re
import shutil
import tempfile
import warnings
import itertools
import contextlib

from .. import runner, explore, coll, gen

RULE = ('mosromgr.cli.main(argv) in-process with captured stdout/stderr. detect / inspect: every sequence of length <= L over '
        'a pool {roCreate, a completed running order, roStoryAppend, compact roReplace, roDelete, roElementAction with an '
        'unrecognised operation, non-XML file, unknown XML, missing path, directory}, plus one canonical document of each of the 25 classes (compact and pretty) before / after another file; merge: every subset of a 5-file pool '
        '{roCreate, roStoryAppend, failing roStoryReplace, roStoryMove, roDelete} in two supply orders x {-i} x {-n} x '
        '{-o file, stdout}, plus a missing file in the list, plus an already completed running order fed back in as the roCreate with further messages, plus no -f at all for the three commands; the same commands over a fake S3 bucket (-b with -p / -p -s / -k / nothing). Oracle: per listed '
        'file, in order, "<name>: <Class>[ (completed)]" on stdout (class from MosFile.from_file run by the harness) or the '
        'name marked on stderr; files after a bad one are still reported; inspect returns normally on classifiable files; '
        'merge output (stdout or file bytes) equals str(mc) computed by the harness with the same flags; return value '
        'None/0 on success, 2 with non-empty stderr on every error. Non-trivial = any invocation with a bad file, an '
        'option, or an error outcome.')


def make_pool(ns, d):
    g = gen
    files = {}

    def w(name, text):
        p = os.path.join(d, name)
        with open(p, 'w', encoding='utf-8') as f:
            f.write(text)
        files[name] = p
        return p
    # non-ASCII (BMP and supplementary-plane) and markup-significant text: the output must be the library's
    # serialisation character for character
    ro_text = coll.base_ro().replace('RO slug v0', 'RO slug caf\u00e9 \U0001F600 &amp; &lt;x&gt; \u00a35')
    assert 'caf' in ro_text
    w('ro.mos.xml', ro_text)
    ro = ns.mt.MosFile.from_string(ro_text)
    ro += ns.mt.MosFile.from_string(g.msg_ro_delete(msg_id=1999))
    w('completed.mos.xml', str(ro))
    w('append.mos.xml', g.msg_story_append([g.story_xml('E', 0)], msg_id=2010))
    w('roreplace-compact.mos.xml', g.msg_ro_replace([g.story_xml('A', 1)], msg_id=2020))
    w('rodelete.mos.xml', g.msg_ro_delete(msg_id=2090))
    w('ea-unknown-op.mos.xml', g.msg_ea('COPY', 'A', sources=[g.id_tag('storyID', 'AB')], msg_id=2030))
    w('not-xml.mos.xml', 'this is not <xml')
    w('unknown.mos.xml', '<mos><heartbeat/></mos>')
    # valid messages stored in declared non-UTF-8 encodings, and bytes that are no text at all
    latin = '<?xml version="1.0" encoding="ISO-8859-1"?>' + g.msg_story_append([g.story_xml('E', 0)], msg_id=2011).replace('E slug v0', 'caf\u00e9 slug')
    with open(os.path.join(d, 'latin1.mos.xml'), 'wb') as f:
        f.write(latin.encode('latin-1'))
    files['latin1.mos.xml'] = os.path.join(d, 'latin1.mos.xml')
    u16 = '<?xml version="1.0" encoding="UTF-16"?>' + g.msg_ro_delete(msg_id=2091)
    with open(os.path.join(d, 'utf16.mos.xml'), 'wb') as f:
        f.write(u16.encode('utf-16'))
    files['utf16.mos.xml'] = os.path.join(d, 'utf16.mos.xml')
    with open(os.path.join(d, 'binary.mos.xml'), 'wb') as f:
        f.write(b'\xff\xfe\x00\x01junk\x80\x81')
    files['binary.mos.xml'] = os.path.join(d, 'binary.mos.xml')
    files['missing.mos.xml'] = os.path.join(d, 'missing.mos.xml')
    os.mkdir(os.path.join(d, 'adir.mos.xml'))
    files['adir.mos.xml'] = os.path.join(d, 'adir.mos.xml')
    # merge pool
    w('m-fail.mos.xml', g.msg_story_replace(gen.UNKNOWN, [g.story_xml('F', 0)], msg_id=2040))
    w('m-move.mos.xml', g.msg_story_move('A', gen.BLANK, msg_id=2050))
    w('ea-itemmove.mos.xml', g.msg_ea('MOVE', 'A', 'a', sources=[g.id_tag('itemID', 'c')], msg_id=2060))
    w('storysend.mos.xml', g.msg_story_send('A', msg_id=2070))
    # one canonical document per concrete class, compact and pretty-printed (inspect must not abort on any)
    from .c08 import canonical_docs
    for cls, text in canonical_docs().items():
        w(f'canon-{cls}.mos.xml', text)
        w(f'canonp-{cls}.mos.xml', g.prettify(text))
    return files


DETECT_POOL = ['ro.mos.xml', 'completed.mos.xml', 'append.mos.xml', 'roreplace-compact.mos.xml', 'rodelete.mos.xml',
               'ea-unknown-op.mos.xml', 'not-xml.mos.xml', 'unknown.mos.xml', 'missing.mos.xml', 'adir.mos.xml', 'latin1.mos.xml',
               'utf16.mos.xml', 'binary.mos.xml',
               'ea-itemmove.mos.xml', 'storysend.mos.xml']
MERGE_POOL = ['ro.mos.xml', 'latin1.mos.xml', 'm-fail.mos.xml', 'm-move.mos.xml', 'utf16.mos.xml']


def invoke(main, argv):
    out, err = io.StringIO(), io.StringIO()
    rv = exc = None
    with contextlib.redirect_stdout(out), contextlib.redirect_stderr(err):
        try:
            rv = main(argv)
        except SystemExit as e:
            rv = e.code
            exc = 'SystemExit'
        except BaseException as e:  # noqa
            exc = 'BUILTIN:' + type(e).__name__ + ':' + str(e)[:80]
    return rv, out.getvalue(), err.getvalue(), exc


KNOWN_CLASSES = None


def _known_classes():
    global KNOWN_CLASSES
    if KNOWN_CLASSES is None:
        from .c08 import ALL_CLASSES
        KNOWN_CLASSES = sorted(ALL_CLASSES, key=len, reverse=True)
    return KNOWN_CLASSES


def _file_in_line(line, files, names):
    """Which listed file a line talks about (full path or base name; longest match)."""
    best = None
    for n in set(names):
        for token in (files[n], os.path.basename(files[n])):
            if token in line and (best is None or len(token) > best[1]):
                best = (n, len(token))
    return best[0] if best else None


def parse_report(out, files, names):
    got = []
    for line in out.splitlines():
        n = _file_in_line(line, files, names)
        if n is None:
            continue
        rest = line.replace(files[n], ' ').replace(os.path.basename(files[n]), ' ')
        c = next((k for k in _known_classes() if re.search(r'(?<![A-Za-z])' + k + r'(?![A-Za-z])', rest)), None)
        if c is None:
            continue
        got.append((n, c + (' (completed)' if 'completed' in rest.replace(c, '') else '')))
    return got


def marked_files(text, files, names):
    marks = set()
    for line in text.splitlines():
        n = _file_in_line(line, files, names)
        if n is not None:
            marks.add(n)
    return marks


def classify(ns, path):
    """Class the library assigns to the file's content (read here as bytes, so that the expectation does
    not go through the file constructor the command itself uses)."""
    try:
        with open(path, 'rb') as f:
            data = f.read()
        o = ns.mt.MosFile.from_string(data)
        return type(o).__name__ + (' (completed)' if o.completed else '')
    except Exception:  # noqa
        return None


def worker(ns, items, res, opts):
    prop = opts['prop']
    from mosromgr.cli import main       # only here: importing the CLI installs a global 'ignore' warning filter
    d = tempfile.mkdtemp(prefix='mosmc-c19-')
    store = coll.FakeS3()
    store.install(ns)
    try:
        files = make_pool(ns, d)
        cls = {n: classify(ns, p) for n, p in files.items()}
        for it in items:
            res.transitions += 1
            cmd = it[0]
            if cmd == 'merge-bad-outfile':
                res.nontrivial += 1
                argv = ['merge', '-f'] + [files[n] for n in it[1]] + ['-o', os.path.join(d, 'no-such-dir', 'out.xml')]
                rv, out, err, exc = invoke(main, argv)
                res.by_class['merge:unwritable-outfile'] += 1
                res.by_outcome[f'merge:rv={rv}'] += 1
                if (exc is not None and exc != 'SystemExit') or rv != 2 or not err.strip():
                    explore.add_simple_finding(res, prop, f'merge:unwritable-outfile:rv={rv}',
                                               f'merge -o into a directory that does not exist: return {rv!r} ({exc}), stderr {err[:100]!r}; expected 2 with a message', argv=argv)
                continue
            if cmd == 's3':
                s3_case(ns, main, files, cls, store, it, res, prop, d)
                continue
            if cmd in ('detect', 'inspect'):
                names = it[1]
                argv = [cmd] + (['-f'] + [files[n] for n in names] if names is not None else [])
                rv, out, err, exc = invoke(main, argv)
                bad = [n for n in (names or ()) if cls[n] is None]
                if bad or not names:
                    res.nontrivial += 1
                res.by_class[f'{cmd}:n={len(names) if names is not None else "nofiles"}:bad={len(bad)}'] += 1
                res.by_outcome[f'{cmd}:rv={rv}'] += 1
                if names is None or len(names) == 0:
                    # the exit-status clause of the statement belongs to merge; here only: no crash
                    if exc is not None and exc != 'SystemExit':
                        explore.add_simple_finding(res, prop, f'{cmd}:no-files:escaped', f'`mosromgr {cmd}` without files: {exc}', argv=argv)
                    continue
                if exc is not None and exc != 'SystemExit':
                    explore.add_simple_finding(res, prop, f'{cmd}:escaped:{exc.split(":")[1]}', f'{cmd} {list(names)}: {exc}', argv=argv, names=list(names))
                    continue
                # report lines: a stdout line naming one of the listed files and a class; "(completed)" when
                # applicable.  (A line naming a file without a class - eg "<file>: Invalid" - is a mark.)
                got = parse_report(out, files, names)
                want = [(n, cls[n]) for n in names if cls[n] is not None]
                first_bad = next((k for k, n in enumerate(names) if cls[n] is None), None)
                where = 'none' if first_bad is None else 'last' if first_bad == len(names) - 1 else 'before-others'
                badkind = 'none' if first_bad is None else ('unreadable' if names[first_bad] in ('missing.mos.xml', 'adir.mos.xml') else 'bad-content')
                if got != want:
                    explore.add_simple_finding(res, prop, f'{cmd}:report-differs:bad={badkind}:{where}',
                                               f'{cmd} {list(names)}: reported {got}, expected {want}; return {rv!r}; stderr {err[:120]!r}',
                                               argv=argv, names=list(names), stdout=out, stderr=err)
                    continue
                marks = marked_files(out + '\n' + err, files, names)
                missing_mark = [n for n in bad if n not in marks]
                if missing_mark:
                    explore.add_simple_finding(res, prop, f'{cmd}:bad-file-not-marked:{badkind}',
                                               f'{cmd} {list(names)}: {missing_mark} neither reported with a class nor marked invalid anywhere in the output; stderr {err[:120]!r}', argv=argv, names=list(names))
                    continue
                if cmd == 'inspect' and rv not in (None, 0) and not bad:
                    explore.add_simple_finding(res, prop, f'inspect:aborted:rv={rv}', f'inspect {list(names)}: return {rv!r}, stderr {err[:120]!r}',
                                               argv=argv, names=list(names))
                if len(res.samples) < 2 and (res.transitions + opts.get('seed', 0)) % 53 == 0:
                    res.samples.append({'argv': [cmd, '-f'] + list(names), 'stdout_lines': [f'{n}: {c}' for n, c in got], 'return': rv})
            else:
                _, names, incomplete, nonstrict, tofile = it
                res.nontrivial += 1
                outpath = os.path.join(d, 'out.xml')
                if os.path.exists(outpath):
                    os.remove(outpath)
                argv = ['merge'] + (['-f'] + [files[n] for n in names] if names is not None else [])
                if incomplete:
                    argv.append('-i')
                if nonstrict:
                    argv.append('--non-strict')
                if tofile:
                    argv += ['-o', outpath]
                rv, out, err, exc = invoke(main, argv)
                # what the library computes
                want_text = want_err = None
                if not names:
                    want_err = 'usage'
                else:
                    try:
                        mc = ns.mc.MosCollection.from_files([files[n] for n in names], allow_incomplete=incomplete)
                        with warnings.catch_warnings():
                            warnings.simplefilter('ignore')
                            mc.merge(strict=not nonstrict)
                        want_text = str(mc)
                    except Exception as e:  # noqa
                        want_err = type(e).__name__
                key = f'merge:i={int(incomplete)}:n={int(nonstrict)}:o={int(tofile)}'
                res.by_class[key + f':{"ok" if want_err is None else want_err}'] += 1
                res.by_outcome[f'merge:rv={rv}'] += 1
                if exc is not None and exc != 'SystemExit':
                    explore.add_simple_finding(res, prop, f'merge:escaped:{exc.split(":")[1]}', f'{argv[:1] + list(names or [])}: {exc}', argv=argv)
                    continue
                if want_err is not None:
                    if rv != 2 or not err.strip():
                        explore.add_simple_finding(res, prop, f'{key}:error-status:{want_err}:rv={rv}',
                                                   f'merge {list(names or [])} flags i={incomplete} n={nonstrict}: library raises {want_err}; CLI returned {rv!r} ({exc}) stderr {err[:100]!r}',
                                                   argv=argv)
                    continue
                if rv not in (None, 0):
                    explore.add_simple_finding(res, prop, f'{key}:success-status:rv={rv}', f'merge {list(names)}: library succeeds; CLI returned {rv!r}; stderr {err[:120]!r}', argv=argv)
                    continue
                if tofile:
                    data = open(outpath, encoding='utf-8').read() if os.path.exists(outpath) else None
                    if data != want_text:
                        explore.add_simple_finding(res, prop, f'{key}:file-differs', f'merge {list(names)} -o: file content differs from str(mc)', argv=argv)
                elif out.rstrip('\n') != want_text:
                    explore.add_simple_finding(res, prop, f'{key}:stdout-differs', f'merge {list(names)}: stdout differs from str(mc)', argv=argv, stdout=out[:500])
    finally:
        shutil.rmtree(d, ignore_errors=True)


def s3_case(ns, main, files, cls, store, it, res, prop, d):
    """The same commands over a (fake) bucket: -b/-p/-s/-k."""
    _, sub, names, opts_ = it
    res.nontrivial += 1
    bucket = 'bkt'
    store.objects = {}
    keys = []
    for k, n in enumerate(names):
        if os.path.isfile(files[n]):
            key = f'pre/{899 - k:03d}-{n}'
            store.put(bucket, key, open(files[n], 'rb').read())
            keys.append((key, n))
    store.put(bucket, 'pre/readme.txt', 'not a mos file')
    store.put(bucket, 'other/zzz.mos.xml', open(files['append.mos.xml'], 'rb').read())
    store.pages[bucket] = [[k for k, _ in keys[:2]] + ['pre/readme.txt'], [k for k, _ in keys[2:]] + ['other/zzz.mos.xml']]
    argv = [sub]
    mode = opts_.get('mode')
    if mode == 'prefix':
        argv += ['-b', bucket, '-p', 'pre/']
    elif mode == 'prefix+suffix':
        argv += ['-b', bucket, '-p', 'pre/', '-s', '.xml']
    elif mode == 'key':
        argv += ['-b', bucket, '-k', keys[0][0]]
    elif mode == 'bucket-only':
        argv += ['-b', bucket]
    if sub == 'merge':
        if opts_.get('i'):
            argv.append('-i')
        if opts_.get('n'):
            argv.append('-n')
    rv, out, err, exc = invoke(main, argv)
    res.by_class[f's3:{sub}:{mode}'] += 1
    res.by_outcome[f's3:{sub}:rv={rv}'] += 1
    if exc is not None and exc != 'SystemExit':
        explore.add_simple_finding(res, prop, f's3:{sub}:{mode}:escaped:{exc.split(":")[1]}', f'{argv}: {exc}', argv=argv)
        return
    if sub in ('detect', 'inspect'):
        if mode == 'bucket-only':
            return      # nothing is listed; only "no crash" (checked above) is required of detect/inspect here
        listed = keys[:1] if mode == 'key' else keys
        kfiles = {key: key for key, n in keys}
        got = parse_report(out, kfiles, [k for k, _ in keys])
        want = [(key, cls[n]) for key, n in listed if cls[n] is not None]
        marks = marked_files(out + '\n' + err, kfiles, [k for k, _ in keys])
        if got != want:
            explore.add_simple_finding(res, prop, f's3:{sub}:{mode}:report-differs', f'{argv}: reported {got}, expected {want}; stderr {err[:100]!r}', argv=argv)
        elif [key for key, n in listed if cls[n] is None and key not in marks]:
            explore.add_simple_finding(res, prop, f's3:{sub}:{mode}:bad-key-not-marked', f'{argv}: bad objects not marked anywhere in the output; stderr {err[:100]!r}', argv=argv)
        return
    # merge
    want_text = want_err = None
    if mode == 'bucket-only' and False:
        pass
    try:
        kw = {'suffix': '.xml'} if mode == 'prefix+suffix' else {}
        if mode == 'bucket-only':
            mc = ns.mc.MosCollection.from_s3(bucket_name=bucket, prefix=None, allow_incomplete=bool(opts_.get('i')))
        else:
            mc = ns.mc.MosCollection.from_s3(bucket_name=bucket, prefix='pre/', allow_incomplete=bool(opts_.get('i')), **kw)
        with warnings.catch_warnings():
            warnings.simplefilter('ignore')
            mc.merge(strict=not opts_.get('n'))
        want_text = str(mc)
    except Exception as e:  # noqa
        want_err = type(e).__name__
    if want_err is not None:
        if rv != 2 or not err.strip():
            explore.add_simple_finding(res, prop, f's3:merge:{mode}:error-status:{want_err}:rv={rv}',
                                       f'{argv}: library raises {want_err}; CLI returned {rv!r} stderr {err[:100]!r}', argv=argv)
    elif rv not in (None, 0) or out.rstrip('\n') != want_text:
        explore.add_simple_finding(res, prop, f's3:merge:{mode}:differs:rv={rv}', f'{argv}: output differs from the library result (return {rv!r}; stderr {err[:100]!r})', argv=argv)


def items_for(tier):
    items = []
    L = 3 if tier == 'thorough' else 2
    pool = DETECT_POOL if tier == 'thorough' else DETECT_POOL[:13]
    for cmd in ('detect', 'inspect'):
        items.append((cmd, None))
        for n in range(1, L + 1):
            for names in itertools.product(pool, repeat=n):
                items.append((cmd, names))
        if tier == 'quick':
            # length 3 over the interesting core: a bad file in every position
            core = ['ro.mos.xml', 'completed.mos.xml', 'roreplace-compact.mos.xml', 'not-xml.mos.xml', 'missing.mos.xml', 'adir.mos.xml',
                    'latin1.mos.xml', 'binary.mos.xml']
            for names in itertools.product(core, repeat=3):
                items.append((cmd, names))
    from .c08 import canonical_docs
    for cls in canonical_docs():
        for pre in ('canon-', 'canonp-'):
            for cmd in ('detect', 'inspect'):
                items.append((cmd, (f'{pre}{cls}.mos.xml', 'ro.mos.xml')))
                items.append((cmd, ('not-xml.mos.xml', f'{pre}{cls}.mos.xml')))
    for n in range(0, len(MERGE_POOL) + 1):
        for sub in itertools.combinations(MERGE_POOL, n):
            for order in (sub, tuple(reversed(sub))):
                if n < 2 and order != sub:
                    continue
                for i in (False, True):
                    for ns_ in (False, True):
                        for o in (False, True):
                            items.append(('merge', order if n else None, i, ns_, o))
    # the same commands over a bucket
    for names in (('ro.mos.xml', 'append.mos.xml', 'rodelete.mos.xml'), ('ro.mos.xml', 'not-xml.mos.xml', 'm-move.mos.xml', 'rodelete.mos.xml'),
                  ('ro.mos.xml', 'm-fail.mos.xml', 'append.mos.xml'), ('unknown.mos.xml', 'completed.mos.xml', 'roreplace-compact.mos.xml')):
        for mode in ('prefix', 'prefix+suffix', 'key', 'bucket-only'):
            for sub in ('detect', 'inspect'):
                items.append(('s3', sub, names, {'mode': mode}))
            if mode in ('prefix', 'prefix+suffix'):
                for i in (False, True):
                    for n_ in (False, True):
                        items.append(('s3', 'merge', names, {'mode': mode, 'i': i, 'n': n_}))
    items.append(('merge-bad-outfile', ('ro.mos.xml', 'append.mos.xml', 'rodelete.mos.xml')))
    for i in (False, True):
        items.append(('merge', ('ro.mos.xml', 'missing.mos.xml', 'rodelete.mos.xml'), i, False, False))
        items.append(('merge', ('ro.mos.xml', 'not-xml.mos.xml', 'rodelete.mos.xml'), i, True, True))
        items.append(('merge', ('ro.mos.xml', 'unknown.mos.xml', 'rodelete.mos.xml'), i, True, False))
    # a previously merged (completed) running order fed back in as the roCreate, with further messages: the library refuses
    # them (strict: MosCompletedMergeError -> exit 2; non-strict: warnings, the completed running order is written)
    for names in (('completed.mos.xml', 'append.mos.xml'), ('completed.mos.xml', 'm-move.mos.xml', 'append.mos.xml'), ('completed.mos.xml',),
                  ('append.mos.xml', 'completed.mos.xml')):
        for i in (False, True):
            for n_ in (False, True):
                for o in (False, True):
                    items.append(('merge', names, i, n_, o))
    return items


def vacuity(tot):
    probs = []
    if not any(k.startswith('merge:') and k.endswith(':ok') for k in tot.by_class):
        probs.append('no successful merge invocation')
    if not any('MosMergeError' in k for k in tot.by_class):
        probs.append('no merge invocation failing with MosMergeError')
    if not any('InvalidMosCollection' in k for k in tot.by_class):
        probs.append('no merge invocation failing with InvalidMosCollection')
    return probs


def run(tier):
    items = items_for(tier)
    parts = [{'label': 'invocations', 'worker': worker, 'items': items, 'chunk': 80}]
    return runner.enum_check(
        'C19', tier, parts, rule=RULE, vacuity=vacuity,
        assumptions=['SystemExit raised by a command body counts as its exit status',
                     'the installed console-script wrapper and real child-process exit codes are not exercised (main() is called in-process)',
                     'the S3 options (-b/-p/-s/-k) run against the in-memory fake bucket of C18'])
