"""C16 Durations, offsets, start and end times are arithmetically consistent."""
from .. import runner
from ..harnesses import HEnum, HStory, timing_states
from ..monitors import Timing

RULE = ('(1) H-ENUM: every duration vector for n <= N stories over the timing kinds {StoryDuration, TextTime, MediaTime '
        '(non-integer), TextTime+MediaTime, StoryDuration+TextTime (precedence), StoryDuration listed after TextTime and MediaTime (precedence), a duration of 0 (as StoryDuration and as '
        'TextTime+MediaTime), metadata without timing, no metadata} x '
        'explicit StoryStarted/StoryEnded on every subset x roEdStart {present, empty, absent}; story durations are distinct '
        'powers of two so every prefix sum identifies its summands; (1b) the same with one story carrying a blank storyID; (2) H-STORY closure (reorder / insert / replace / delete '
        '/ swap / re-send) over stories with per-ID timing kinds and explicit times. Monitor (every state): independent '
        'recomputation from the XML text of duration precedence and, when every story has a duration, RO duration = sum, '
        'offset_i = sum_{j<i} d_j, start = explicit or roEdStart + offset, end = explicit or start + duration, RO end = '
        'last story\'s end.')


def vacuity(by_kind, by_outcome, extra, by_class):
    probs = []
    for k in ('states_with_all_durations', 'states_with_a_story_without_duration', 'states_checked_after_transition'):
        if not extra.get(k):
            probs.append(f'{k} == 0')
    return probs


TIMING = {'A': 'all3', 'AB': 'zero', 'C': 'media', 'D': 'dur+text', 'E': 'both', 'F': 'zero-text'}
EXPL = {'AB': 's', 'C': 'e', 'D': 'se'}


def run(tier):
    mon = [Timing()]
    if tier == 'quick':
        parts = [
            {'label': 'duration-vectors-n<=3', 'harness': HEnum(timing_states(max_n=3, explicit=('', 'se'), edstarts=(True, False)), 'timing'), 'monitors': mon},
            {'label': 'duration-vectors-n<=2-explicit-subsets', 'harness': HEnum(timing_states(max_n=2), 'timing2'), 'monitors': mon},
            {'label': 'reordering-closure', 'harness': HStory(pool=4, cap=3, max_list=1, timing=TIMING, explicit=EXPL, layouts=('before',),
                                                             no_expand=()), 'monitors': mon},
            {'label': 'reordering-closure-no-roEdStart', 'harness': HStory(pool=3, cap=3, max_list=1, timing=TIMING, explicit=EXPL, layouts=('between',),
                                                                          no_expand=(), edstart=False), 'monitors': mon},
        ]
    else:
        parts = [
            {'label': 'duration-vectors-n<=3-all', 'harness': HEnum(timing_states(max_n=3), 'timing'), 'monitors': mon},
            {'label': 'duration-vectors-n<=4', 'harness': HEnum(timing_states(max_n=4, explicit=('', 'se'), edstarts=(True, False),
                                                                              kinds=('dur', 'text', 'both', 'zero', 'none')), 'timing4'), 'monitors': mon},
            {'label': 'reordering-closure', 'harness': HStory(pool=6, cap=4, max_list=2, timing=TIMING, explicit=EXPL, layouts=('before',),
                                                             no_expand=()), 'monitors': mon, 'opts': {'time_cap': 1500}},
            {'label': 'reordering-closure-between', 'harness': HStory(pool=4, cap=4, max_list=1, timing=TIMING, explicit=EXPL, layouts=('between',), nmeta=2,
                                                                     no_expand=()), 'monitors': mon, 'opts': {'time_cap': 900}},
            {'label': 'reordering-closure-no-roEdStart', 'harness': HStory(pool=4, cap=4, max_list=2, timing=TIMING, explicit=EXPL, layouts=('after',),
                                                                          no_expand=(), edstart=False), 'monitors': mon},
        ]
    # one story with a blank storyID (the library supports blank IDs): the relations hold for it and around it
    from ..gen import BLANK
    parts.append({'label': 'duration-vectors-with-a-blank-storyID',
                  'harness': HEnum(timing_states(max_n=3, kinds=('dur', 'both', 'zero', 'none'), explicit=('', 'se'), edstarts=(True, False),
                                                 ids=('A', BLANK, 'C')), 'timing-blank'), 'monitors': mon})
    parts.append({'label': 'duration-vectors-blank-storyID-first',
                  'harness': HEnum(timing_states(max_n=2, kinds=('dur', 'both', 'zero', 'none'), explicit=('', 'se'), edstarts=(True, False),
                                                 ids=(BLANK, 'A')), 'timing-blank-first'), 'monitors': mon})
    return runner.graph_check(
        'C16', tier, parts, rule=RULE, vacuity=vacuity,
        assumptions=['durations numeric, times full ISO-8601 timestamps (a time without a date would make dateutil consult the wall clock)',
                     'one mosExternalMetadata block per story',
                     'when some story has no duration only the per-story duration rule is checked (the other relations are conditional on all durations being present)'])
