"""C13 Merging depends only on content; message objects stay independent."""
from .. import runner, spec
from ..harnesses import HMixed
from ..monitors import Independence

RULE = ('H-MIXED: for every message K of all 24 mergeable classes in every initial shape, and every follow-up edit E of a '
        'reduced menu (item delete/insert/replace/move inside stories, story replace/delete/move/send, metadata replace, '
        'roReplace, roDelete; up to P informative edits per class): m = parse(K); ro1 += m; ro2 += m (same object) vs '
        'ro2\' += parse(K); ro1 += E; then str(m) equals its snapshot, str(ro2) is unchanged, ro3 += m equals ro3\' += parse(K), '
        'and ro1 += m equals the same on the re-read ro1. All comparisons are literal string equalities between '
        'executions of the implementation (differential). transitions = K-steps; histories counted separately. The same histories are also run with the message merged through its documented merge() method instead of `+`, and with messages whose carried storyID / itemID text is surrounded by white space.')


def vacuity(by_kind, by_outcome, extra, by_class):
    probs = [f'message class {k} never exercised' for k in spec.ALL_KINDS if not by_kind.get(k)]
    if extra.get('histories', 0) < 1000:
        probs.append(f"only {extra.get('histories', 0)} histories")
    return probs


def run(tier):
    if tier == 'quick':
        fh = HMixed(max_list=1, meta_subsets=1, story_L=1)
        parts = [{'label': 'K;E', 'harness': HMixed(max_list=1, story_L=2, meta_subsets=1, layouts=('before',)),
                  'monitors': [Independence(fh, per_kind=2)], 'opts': {'max_depth': 0}},
                 {'label': 'K;E through msg.merge(ro)', 'harness': HMixed(max_list=1, story_L=1, meta_subsets=1, layouts=('before',),
                                                                          init_shapes=[('A', 'AB'), ('AB', 'A', 'C')]),
                  'monitors': [Independence(fh, per_kind=1, direct=True)], 'opts': {'max_depth': 0}}]
    else:
        fh = HMixed(max_list=1, meta_subsets=1, story_L=1)
        parts = [{'label': 'K;E', 'harness': HMixed(max_list=2, story_L=2, meta_subsets=2, rich=True),
                  'monitors': [Independence(fh, per_kind=6)], 'opts': {'max_depth': 0}},
                 {'label': 'prefix;K;E', 'harness': HMixed(max_list=1, story_L=1, meta_subsets=1, layouts=('before',)),
                  'monitors': [Independence(fh, per_kind=2)], 'opts': {'max_depth': 1, 'max_states': 3000}}]
    # carried stories / items whose ID text is surrounded by white space (text on its own line)
    carriers = ('StoryAppend', 'StoryInsert', 'StoryReplace', 'EAStoryInsert', 'EAStoryReplace', 'StorySend', 'RunningOrderReplace',
                'ItemInsert', 'ItemReplace', 'EAItemInsert', 'EAItemReplace')
    parts.append({'label': 'K;E carried IDs padded with white space',
                  'harness': HMixed(max_list=1, story_L=1, meta_subsets=1, layouts=('before',), kinds=carriers, pad_ids=True,
                                    init_shapes=[('A', 'AB'), ('AB', 'A', 'C')] if tier == 'quick' else 'std'),
                  'monitors': [Independence(fh, per_kind=1)], 'opts': {'max_depth': 0}})
    return runner.graph_check(
        'C13', tier, parts, rule=RULE, vacuity=vacuity,
        assumptions=['follow-up edits are those of the reduced H-MIXED menu that change the running order (uninformative edits are skipped and not counted)'])
