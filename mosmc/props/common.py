"""Standard graph parts shared by the properties that ride on H-STORY / H-ITEM."""
from ..harnesses import HStory, HItem, HMixed


# stories without timing metadata in front of, between and behind stories with it
MIXED_TIMING = {'A': 'nometa', 'AB': 'dur', 'C': 'none', 'D': 'nopayload', 'E': 'both', 'F': 'text'}


def mixed_part(tier, mon):
    """Histories that start with ANY message class (roReplace, roMetadataReplace, roStorySend, ...): every
    message of all 24 classes in every state reached by one (thorough: two) earlier message(s)."""
    if tier == 'quick':
        return {'label': 'after-any-message-depth1', 'harness': HMixed(max_list=1, story_L=1, meta_subsets=1, layouts=('before',)),
                'monitors': mon, 'opts': {'max_depth': 1}}
    return {'label': 'after-any-message-depth1', 'harness': HMixed(max_list=2, story_L=2, meta_subsets=1), 'monitors': mon,
            'opts': {'max_depth': 1, 'max_states': 20000}}


def live_part(tier, mon, kinds=None):
    """Two-message histories on ONE live object (no re-read between the messages): first message = up to k
    resolvable messages of each of the 24 classes, second message = every message of `kinds`."""
    from ..monitors import LiveSecondStep
    from .. import spec
    kinds = kinds or spec.ALL_KINDS
    if tier == 'quick':
        second = HMixed(max_list=1, story_L=1, meta_subsets=1, kinds=kinds)
        first = HMixed(max_list=1, story_L=1, meta_subsets=1, layouts=('before',))
        k = 1
    else:
        second = HMixed(max_list=2, story_L=2, meta_subsets=1, kinds=kinds)
        first = HMixed(max_list=1, story_L=2, meta_subsets=2)
        k = 3
    return {'label': 'live-two-message-histories', 'harness': first, 'monitors': [LiveSecondStep(mon, second, first_per_kind=k)],
            'opts': {'max_depth': 0}}


def live3_part(tier, mon, kinds=None):
    """Three-message histories on ONE live object (see monitors.LiveThirdStep)."""
    from ..monitors import LiveThirdStep
    from ..explore import canonical
    from .. import spec
    kinds = kinds or spec.ALL_KINDS
    layouts = ('before', 'between', 'after')
    if tier == 'quick':
        shapes = [('AB', 'A', 'C'), ('D', 'A'), ('C', 'D', 'AB'), ('A', 'AB')]
        second = HMixed(max_list=1, story_L=1, meta_subsets=1)
        third = HMixed(max_list=1, story_L=1, meta_subsets=1, kinds=kinds)
        per = dict(first_per_kind=2, second_per_kind=1, third_per_kind=3)
    else:
        shapes = [('A',), ('A', 'AB'), ('AB', 'A', 'C'), ('D', 'A'), ('C', 'D', 'AB')]
        second = HMixed(max_list=1, story_L=2, meta_subsets=1)
        third = HMixed(max_list=2, story_L=2, meta_subsets=1, kinds=kinds)
        per = dict(first_per_kind=2, second_per_kind=2, third_per_kind=6)
    first = HMixed(max_list=1, story_L=1, meta_subsets=1, layouts=layouts, init_shapes=shapes)
    # the work of one initial state is first x second x third messages; the explorer distributes states over its workers,
    # so each shape is given in three layouts and each copy starts the histories of one third of the message classes
    states = list(dict.fromkeys(canonical(t) for t in first.initial_states()))
    n = len(states) // len(shapes)
    # (rotated by the shape's index, so that every message class meets every layout in some shape)
    slices = {t: ((i // len(shapes) + i % len(shapes)) % n, n) for i, t in enumerate(states)} if len(states) == len(shapes) * len(layouts) else None
    w = LiveThirdStep(mon, second, third, slices=slices, **per)
    return {'label': 'live-three-message-histories', 'harness': first, 'monitors': [w],
            'opts': {'max_depth': 0} if tier == 'quick' else {'max_depth': 0, 'time_cap': 1200}}


def story_item_parts(tier, mon, *, timing_variants=True, small=False, mixed=True, live=True, live3=True, exotic=True):
    if tier == 'quick':
        parts = [
            {'label': 'stories-pool4-cap3-L2' if small else 'stories-pool5-cap4-L2',
             'harness': HStory(pool=4 if small else 5, cap=3 if small else 4, max_list=2, layouts=('before',)),
             'monitors': mon},
            {'label': 'stories-between+after-pool4-cap3-L2', 'harness': HStory(pool=4, cap=3, max_list=2, layouts=('between', 'after'), nmeta=2),
             'monitors': mon},
            {'label': 'items-pool4-cap3-L2' if small else 'items-pool5-cap4-L2',
             'harness': HItem(pool=4 if small else 5, cap=3 if small else 4, max_list=2, patterns=('plain',), positions=('second',)), 'monitors': mon},
            {'label': 'items-interleaved-pool4-cap3-L2',
             'harness': HItem(pool=4, cap=3, max_list=2, patterns=('p-between',), positions=('last',)), 'monitors': mon},
        ]
        # lists of three IDs / carried elements on a small pool (a fault that needs a third element)
        parts.append({'label': 'stories-pool4-cap3-L3', 'harness': HStory(pool=4, cap=3, max_list=3, layouts=('before',), packings=('one',)),
                      'monitors': mon})
        parts.append({'label': 'items-pool4-cap3-L3', 'harness': HItem(pool=4, cap=3, max_list=3, patterns=('plain',), positions=('second',),
                                                                      packings=('one',)), 'monitors': mon})
        if timing_variants:
            parts.append({'label': 'stories-no-timing-metadata',
                          'harness': HStory(pool=4, cap=3, max_list=2, layouts=('before',), timing=MIXED_TIMING), 'monitors': mon})
        if mixed:
            parts.append(mixed_part(tier, mon))
        if live:
            parts.append(live_part(tier, mon))
    else:
        parts = [
            {'label': 'stories-pool6-cap5-L2', 'harness': HStory(pool=6, cap=5, max_list=2, layouts=('before', 'after')),
             'monitors': mon},
            {'label': 'stories-pool5-cap4-L3', 'harness': HStory(pool=5, cap=4, max_list=3, layouts=('before',)),
             'monitors': mon},
            {'label': 'stories-between-pool5-cap4-L2', 'harness': HStory(pool=5, cap=4, max_list=2, layouts=('between',), nmeta=2),
             'monitors': mon},
            {'label': 'items-pool6-cap5-L2', 'harness': HItem(pool=6, cap=5, max_list=2, patterns=('plain',)), 'monitors': mon},
            {'label': 'items-pool5-cap4-L3', 'harness': HItem(pool=5, cap=4, max_list=3, patterns=('plain',), positions=('second',)), 'monitors': mon},
            {'label': 'items-interleaved-pool5-cap4-L2', 'harness': HItem(pool=5, cap=4, max_list=2, patterns=('p-between',), positions=('second',)),
             'monitors': mon},
        ]
        if timing_variants:
            parts.append({'label': 'stories-no-timing-metadata',
                          'harness': HStory(pool=5, cap=4, max_list=2, layouts=('before',), timing=MIXED_TIMING),
                          'monitors': mon})
            parts.append({'label': 'items-no-timing-metadata',
                          'harness': HItem(pool=4, cap=3, max_list=2, patterns=('plain',), timing='nometa'), 'monitors': mon})
        if mixed:
            parts.append(mixed_part(tier, mon))
        if live:
            parts.append(live_part(tier, mon))
    if live3:
        parts.append(live3_part(tier, mon))
    if exotic:
        # IDs that are twins up to surrounding blanks or case, numeric-looking, markup-significant, non-ASCII
        from .. import gen
        pool = gen.EXOTIC_QUICK if tier == 'quick' else gen.EXOTIC_IDS
        hs = HStory(pool=pool, cap=3, max_list=2, layouts=('before',), packings=('one',))
        hi = HItem(pool=pool, cap=3, max_list=2, patterns=('plain',), positions=('second',), packings=('one',))
        hs.absent_refs = hi.absent_refs = True
        parts.append({'label': 'stories-exotic-ids', 'harness': hs, 'monitors': mon,
                      'opts': {} if tier == 'quick' else {'time_cap': 600}})
        parts.append({'label': 'items-exotic-ids', 'harness': hi,
                      'monitors': mon, 'opts': {} if tier == 'quick' else {'time_cap': 600}})
    return parts


ALPHABET = ('H-STORY (every sequence of <=N distinct story IDs x roCreate layouts, closed under all 11 story-level message '
            'classes) and H-ITEM (addressed story with every sequence of <=N item IDs, decoy story with the same item IDs, '
            'closed under all 9 item-level message classes); every reference in {k-th existing, UNKNOWN, BLANK, ABSENT}, '
            'lists of length 1..L with and without repeats, both roElementAction packings. ')
