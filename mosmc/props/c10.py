"""C10 Merge result is independent of the order in which inputs are supplied."""
import shutil
import tempfile
import itertools

from .. import runner, explore, coll, gen
from .c09 import run_collection

RULE = ('Every permutation of message lists of n <= N documents (roCreate + order-sensitive messages; also lists that send one instruction again under further message IDs) whose message IDs have mixed digit '
        'counts ({9,10,100}, {2,10,1000,99}, {7,70,700,8}, {9,4000000000,2000000000,3}, {7,0,10,100}, ...), for each of the three constructors (from_strings, '
        'from_files, from_s3 with the listing order permuted); plus sorted() / pairwise < on the MosFile objects. Oracle: '
        'reader message IDs ascend numerically for every permutation; one distinct str(mc) per list across all its '
        'permutations, equal to the fold in ascending numeric order. Non-trivial = a permutation other than the sorted one.')

ID_SETS = [
    (9, 4000000000, 2000000000, 3, 4294967295),      # the whole 32-bit range of a MOS messageID: more than 2**31 apart
    (7, 0, 10, 100, 3),                              # 0 is a number too (it sorts first)
    (5, 9, 10, 100), (1, 2, 10, 1000, 99), (3, 7, 70, 700, 8), (10, 100, 1000, 99, 9), (1, 11, 2, 21, 3), (8, 9, 10, 11, 12, 101),
    (1, 1000000, 999999, 20, 3),
]


def split_ids(ids, ro_pos):
    """-> (roCreate's id, the other ids in their given order).  ro_pos: which of the ids (by size) the
    roCreate carries - it need not be the smallest (a message-ID counter may have restarted)."""
    srt = sorted(ids)
    ro = {'min': srt[0], 'mid': srt[len(srt) // 2], 'max': srt[-1]}[ro_pos]
    return ro, [i for i in ids if i != ro]


def messages_for(ids, variant='std'):
    """roCreate gets the first id; the others are order-sensitive messages."""
    g = gen
    st = lambda i: g.story_xml(i, 0)                     # noqa
    if variant == 'repeat':
        # the same instruction sent again later under another message ID (a story moved up, elsewhere, and up again):
        # every one of them counts, at its own place in the numeric order
        ops = [lambda n, t=t: g.msg_story_move('C', t, msg_id=n) for t in ('A', 'AB', 'A', 'AB', 'A')]
        return ids[0], [op(n) for op, n in zip(ops, ids[1:])]
    ops = [
        lambda n: g.msg_story_append([st('E')], msg_id=n),
        lambda n: g.msg_story_move('E', 'A', msg_id=n),            # fails unless E was appended before
        lambda n: g.msg_story_delete(['A'], msg_id=n),             # makes a later move before A fail
        lambda n: g.msg_story_replace('AB', [st('F')], msg_id=n),
        lambda n: g.msg_ea('SWAP', sources=[g.id_tag('storyID', 'F'), g.id_tag('storyID', 'C')], target_present=False, msg_id=n),
    ]
    return ids[0], [op(n) for op, n in zip(ops, ids[1:])]


def worker(ns, items, res, opts):
    prop = opts['prop']
    tmp = tempfile.mkdtemp(prefix='mosmc-c10-')
    store = coll.FakeS3()
    store.install(ns)
    try:
        for ids, order, ctor, ro_pos, *var in items:
            variant = var[0] if var else 'std'
            ro_id, rest = split_ids(ids, ro_pos)
            ids = (ro_id,) + tuple(rest)
            ro_id, msgs = messages_for(ids, variant)
            ro_text = coll.base_ro(msg_id=ro_id)
            by_id = sorted(zip(ids[1:], msgs))
            ref = coll.fold(ns, ro_text, [t for _, t in by_id], strict=False)
            got = run_collection(ns, ctor, ro_text, msgs, False, tmp, store, order=order)
            res.transitions += 1
            if list(order) != sorted(order):
                res.nontrivial += 1
            res.by_class[f'n={len(ids)}:{ctor}:roCreate={ro_pos}' + ('' if variant == 'std' else ':' + variant)] += 1
            res.by_outcome['failed=%d' % len(ref['failed'])] += 1
            want_ids = sorted(ids[1:])
            if got['exc'] is not None and str(got['exc']).startswith('CTOR'):
                explore.add_simple_finding(res, prop, f'ctor-failed:{ctor}', f'ids {ids} order {order}: constructor raised {got["exc"]}',
                                           ids=list(ids), order=list(order))
            elif got['reader_ids'] != want_ids:
                explore.add_simple_finding(res, prop, f'reader-order:{ctor}:digits={"mixed" if len({len(str(i)) for i in ids}) > 1 else "same"}:roCreate={ro_pos}',
                                           f'ids {ids} supplied in order {order} via from_{ctor}: readers {got["reader_ids"]}, numeric order {want_ids}',
                                           ids=list(ids), order=list(order), got=got)
            elif got['text'] != ref['text']:
                explore.add_simple_finding(res, prop, f'result-depends-on-order:{ctor}:roCreate={ro_pos}',
                                           f'ids {ids} supplied in order {order} via from_{ctor}: merged result differs from the fold in numeric order',
                                           ids=list(ids), order=list(order), got=got, reference=ref)
            if ctor == 'strings' and list(order) == sorted(order) and ro_pos == 'min':
                # sorting MosFile objects orders them numerically too
                docs = [ro_text] + msgs
                for perm in itertools.permutations(range(len(docs))):
                    try:
                        objs = [ns.mt.MosFile.from_string(docs[i]) for i in perm]
                        s = [o.message_id for o in sorted(objs)]
                    except Exception as e:  # noqa
                        explore.add_simple_finding(res, prop, f'sorted-mosfiles:raised:{type(e).__name__}', f'sorting MosFile objects for ids {ids} raised {type(e).__name__}: {e}', ids=list(ids))
                        break
                    res.transitions += 1
                    if s != sorted(ids):
                        explore.add_simple_finding(res, prop, 'sorted-mosfiles', f'sorted(MosFile objects) gives {s} for ids {ids}', ids=list(ids))
                        break
                    lt_ok = all((a < b) == (a.message_id < b.message_id) for a in objs for b in objs)
                    if not lt_ok:
                        explore.add_simple_finding(res, prop, 'mosfile-lt', f'< on MosFile objects is not numeric for ids {ids}', ids=list(ids))
                        break
                    if len(docs) > 4:
                        break
            if len(res.samples) < 2 and (sum(order) + opts.get('seed', 0)) % 5 == 0 and list(order) != sorted(order):
                res.samples.append({'ids': list(ids), 'supply_order': list(order), 'constructor': ctor, 'reader_ids': got['reader_ids']})
    finally:
        shutil.rmtree(tmp, ignore_errors=True)


def run(tier):
    items = []
    nmax = 4 if tier == 'quick' else 6
    sets = ID_SETS if tier == 'thorough' else ID_SETS[:7]
    for ids in sets:
        for n in range(2, min(len(ids), nmax) + 1):
            sub = tuple(ids[:n])
            for order in itertools.permutations(range(n)):
                for ctor in ('strings', 'files', 's3'):
                    for ro_pos in ('min', 'mid', 'max'):
                        items.append((sub, order, ctor, ro_pos))
                    if n >= 4 and ids in sets[2:4]:
                        items.append((sub, order, ctor, 'min', 'repeat'))
    parts = [{'label': 'permutations', 'worker': worker, 'items': items, 'chunk': 60}]
    return runner.enum_check(
        'C10', tier, parts, rule=RULE,
        assumptions=['the roCreate carries the smallest, the median or the largest message ID of the list (messages with a lower ID are still merged, in ID order)',
                     'for from_s3 the supply order is the listing order of the fake bucket'],
        extra_cov={'id_sets': [list(s) for s in sets], 'max_documents': nmax})
