"""C17 Script and body list the story text and items faithfully and in order."""
from .. import runner, gen
from ..harnesses import HEnum, HStory, body_states, BODY_TOKENS
from ..monitors import ScriptBody

RULE = ('(1) H-ENUM: one-story running orders whose story children are every sequence of length <= B over 17 paragraph kinds '
        '(plain, empty, whitespace-only, (round), <angle>, half-open, half-closed, padded bracketed, "()", inner brackets, '
        'Unicode, padded plain, "(a) and (b)", opening round/closing angle, opening angle/closing round, bracketed over two lines), an item and a foreign element; (2) H-STORY closure (moves, swaps, inserts, '
        'replaces, deletes, roStorySend with bodies) over stories with per-ID bodies. Monitor (every state): body = every '
        '<p> (text or \'\') and every item in document order; script = stripped non-empty paragraphs not wrapped in () or <>; '
        'running-order script/body = concatenation in story order - all derived independently from the XML text.')


def vacuity(by_kind, by_outcome, extra, by_class):
    probs = []
    for k in ('states_with_script', 'states_checked_after_transition'):
        if not extra.get(k):
            probs.append(f'{k} == 0')
    return probs


BODIES = {
    'A': (('p', 'plain'), ('i', 'a'), ('p', 'round'), ('p', 'padded-plain')),
    'AB': (('p', 'angle'), ('p', 'unicode'), ('i', 'a'), ('p', 'empty')),
    'C': (('x', 1), ('p', 'half-open'), ('p', 'ws'), ('i', 'c'), ('p', 'inner')),
    'D': (),
    'E': (('p', 'padded'), ('p', 'half-close'), ('p', 'parens-only')),
    'F': (('p', 'mixed-br'), ('p', 'round-angle'), ('p', 'angle-round'), ('p', 'round-multiline'), ('p', 'angle-multiline')),
}
SEND_BODIES = ((('p', 'plain'), ('i', 'e'), ('p', 'round')), (('p', 'ws'), ('p', 'unicode')), ())


def run(tier):
    mon = [ScriptBody()]
    if tier == 'quick':
        toks6 = tuple(('p', k) for k in ('plain', 'empty', 'round', 'round-multiline', 'round-angle', 'unicode')) + (('i', 'a'),)
        parts = [
            {'label': 'bodies-len<=3-all-kinds', 'harness': HEnum(body_states(3), 'bodies3'), 'monitors': mon},
            {'label': 'bodies-len4-7-kinds', 'harness': HEnum(body_states(4, toks6), 'bodies4'), 'monitors': mon},
            {'label': 'story-order-closure', 'harness': HStory(pool=4, cap=3, max_list=1, bodies=BODIES, layouts=('before',), no_expand=(),
                                                              send_bodies=SEND_BODIES, replace_variant=0), 'monitors': mon},
        ]
    else:
        toks8 = tuple(('p', k) for k in ('plain', 'empty', 'ws', 'round', 'angle', 'half-open', 'angle-round', 'unicode')) + (('i', 'a'), ('x', 1))
        parts = [
            {'label': 'bodies-len<=4-all-kinds', 'harness': HEnum(body_states(4), 'bodies4'), 'monitors': mon},
            {'label': 'bodies-len5-10-kinds', 'harness': HEnum(body_states(5, toks8), 'bodies5'), 'monitors': mon},
            {'label': 'story-order-closure', 'harness': HStory(pool=6, cap=4, max_list=1, bodies=BODIES, layouts=('before',), no_expand=(),
                                                              send_bodies=SEND_BODIES), 'monitors': mon, 'opts': {'time_cap': 1500, 'max_states': 30000}},
        ]
    return runner.graph_check(
        'C17', tier, parts, rule=RULE, vacuity=vacuity,
        assumptions=['paragraphs containing inline child elements are outside the claim (states holding one are skipped and counted)',
                     'a paragraph counts as a technical note when its stripped text starts with ( and ends with ), or starts with < and ends with >'])
