"""C17 Script and body list the story text and items faithfully and in order."""
from .. import runner, gen
from ..harnesses import HEnum, HStory, HItem, body_states, BODY_TOKENS
from .common import mixed_part
from ..monitors import ScriptBody

RULE = ('(1) H-ENUM: one-story running orders whose story children are every sequence of length <= B over 20 paragraph kinds '
        '(plain, empty, whitespace-only, (round), <angle>, half-open, half-closed, padded bracketed, "()", inner brackets, '
        'Unicode, padded plain, "(a) and (b)", opening round/closing angle, opening angle/closing round, bracketed over two lines, made of / edged by Unicode white space U+00A0 U+3000, text not in normal form C), an item and a foreign element; (2) H-STORY closure (moves, swaps, inserts, '
        'replaces, deletes, roStorySend with bodies) over stories with per-ID bodies; (3) H-ITEM closure (item insert / replace / delete / move / swap inside a story whose items are interleaved with paragraphs) and every message of all 24 classes from the H-MIXED states, the accessors read on the live object before the merge and checked on the same object after it. Monitor (every state): body = every '
        '<p> (text or \'\') and every item in document order; script = stripped non-empty paragraphs not wrapped in () or <>; '
        'running-order script/body = concatenation in story order - all derived independently from the XML text.')


def vacuity(by_kind, by_outcome, extra, by_class):
    probs = []
    for k in ('states_with_script', 'states_checked_after_transition'):
        if not extra.get(k):
            probs.append(f'{k} == 0')
    return probs


BODIES = {
    'A': (('p', 'plain'), ('i', 'a'), ('p', 'round'), ('p', 'padded-plain')),
    'AB': (('p', 'angle'), ('p', 'unicode'), ('i', 'a'), ('p', 'empty')),
    'C': (('x', 1), ('p', 'half-open'), ('p', 'ws'), ('i', 'c'), ('p', 'inner')),
    'D': (('p', 'nbsp-edged'), ('i', 'ab'), ('p', 'nbsp-only')),
    'E': (('p', 'padded'), ('p', 'half-close'), ('p', 'parens-only'), ('p', 'decomposed')),
    'F': (('p', 'mixed-br'), ('p', 'round-angle'), ('p', 'angle-round'), ('p', 'round-multiline'), ('p', 'angle-multiline')),
}
SEND_BODIES = ((('p', 'plain'), ('i', 'e'), ('p', 'round')), (('p', 'ws'), ('p', 'unicode')), ())


def run(tier):
    mon = [ScriptBody()]
    if tier == 'quick':
        toks6 = tuple(('p', k) for k in ('plain', 'empty', 'round', 'round-multiline', 'round-angle', 'unicode')) + (('i', 'a'),)
        parts = [
            {'label': 'bodies-len<=3-all-kinds', 'harness': HEnum(body_states(3), 'bodies3'), 'monitors': mon},
            {'label': 'bodies-len4-7-kinds', 'harness': HEnum(body_states(4, toks6), 'bodies4'), 'monitors': mon},
            {'label': 'story-order-closure', 'harness': HStory(pool=4, cap=3, max_list=1, bodies=BODIES, layouts=('before',), no_expand=(),
                                                              send_bodies=SEND_BODIES, replace_variant=0), 'monitors': mon},
        ]
    else:
        toks8 = tuple(('p', k) for k in ('plain', 'empty', 'ws', 'round', 'angle', 'half-open', 'angle-round', 'unicode')) + (('i', 'a'), ('x', 1))
        parts = [
            {'label': 'bodies-len<=4-all-kinds', 'harness': HEnum(body_states(4), 'bodies4'), 'monitors': mon},
            {'label': 'bodies-len5-10-kinds', 'harness': HEnum(body_states(5, toks8), 'bodies5'), 'monitors': mon},
            {'label': 'story-order-closure', 'harness': HStory(pool=6, cap=4, max_list=1, bodies=BODIES, layouts=('before',), no_expand=(),
                                                              send_bodies=SEND_BODIES), 'monitors': mon, 'opts': {'time_cap': 1500, 'max_states': 30000}},
        ]
    # item-level messages edit a story in place (same <story> element, often the same number of children): the stories
    # of H-ITEM interleave paragraphs with the items, H-MIXED runs every message of all 24 classes
    parts.append({'label': 'item-order-closure', 'harness': HItem(pool=3 if tier == 'quick' else 4, cap=3, max_list=1 if tier == 'quick' else 3, patterns=('p-between',),
                                                                 positions=('second',)), 'monitors': mon,
                  'opts': {} if tier == 'quick' else {'time_cap': 900}})
    parts.append(mixed_part(tier, mon))
    return runner.graph_check(
        'C17', tier, parts, rule=RULE, vacuity=vacuity,
        assumptions=['paragraphs containing inline child elements are outside the claim (states holding one are skipped and counted)',
                     'a paragraph counts as a technical note when its stripped text starts with ( and ends with ), or starts with < and ends with >'])
