"""C12 Well-formed input fails only with the library's own exceptions."""
from .. import runner
from ..monitors import mon_library_exceptions
from .common import story_item_parts, ALPHABET
from . import c09, c08
from .. import coll, explore

RULE = (ALPHABET + 'States include running orders whose stories carry no timing metadata and states reached by merges '
        'that inserted such stories. Monitor: for every schema-shaped case the exception leaving MosFile.from_string / '
        '`ro += msg` is None or a MosRoMgrException subclass (a MosMergeError subclass for the merge). '
        'Non-trivial = result differs from the input or exception/warning observed.')


def vacuity(by_kind, by_outcome, extra, by_class):
    probs = []
    if not extra.get('schema_shaped'):
        probs.append('no schema-shaped case')
    if not any(k.startswith('Mos') for k in by_outcome):
        probs.append('no library exception observed at all')
    return probs


def doc_worker(ns, items, res, opts):
    """Classification of every H-DOC document: None or a MosRoMgrException subclass."""
    for label, text, trivial in items:
        for wf in ('always',):
            v = c08._classify(ns, 'str', text, None, wf)
            res.transitions += 1
            res.nontrivial += 0 if trivial else 1
            res.by_outcome['classify:' + v.split(':')[0]] += 1
            res.extra['documents_classified'] += 1
            if v.startswith('BUILTIN:'):
                explore.add_simple_finding(res, opts['prop'], f"CLASSIFY:{label.split(':')[0]}:{v.split(':')[1]}",
                                           f'classifying document {label!r} raised {v[8:]}', document=text, label=label)


def run(tier):
    parts = story_item_parts(tier, [mon_library_exceptions])
    names = list(coll.pool_nasty())
    seqs = list(c09.sequences(names, 2 if tier == 'quick' else 3))
    docs = [d for d in c08.documents(tier) if not d[0].startswith(('prefix:', 'deletion:', 'not-xml:'))]
    enum_parts = [{'label': 'collection-merges-self-referential-messages', 'worker': c09.worker, 'items': seqs,
                   'opts': {'c12': True, 'nasty': True}, 'chunk': 20},
                  {'label': 'classification-of-well-formed-documents', 'worker': doc_worker, 'items': docs, 'chunk': 100}]
    return runner.graph_check(
        'C12', tier, parts, rule=RULE + ' Plus: every sequence (length <= 2, thorough 3) over a pool of self-referential / '
        'blank / repeated-ID / unresolvable messages merged through MosCollection strict and non-strict (non-strict must run '
        'to the end), and the classification of every well-formed H-DOC document.', vacuity=vacuity, enum_parts=enum_parts,
        assumptions=['schema-shaped = required tags present (IDs may be blank, unknown, repeated, self-referential); '
                     'roStoryInsert/roItemInsert/roItemReplace/roStoryReplace without their reference tag are not schema-shaped and are skipped',
                     'bounds as listed per part'])
