"""C12 Well-formed input fails only with the library's own exceptions."""
from .. import runner
from ..monitors import mon_library_exceptions
from .common import story_item_parts, ALPHABET
from . import c09, c08
from .. import coll, explore

RULE = (ALPHABET + 'States include running orders whose stories carry no timing metadata and states reached by merges '
        'that inserted such stories. Monitor: for every schema-shaped case the exception leaving MosFile.from_string / '
        '`ro += msg` is None or a MosRoMgrException subclass (a MosMergeError subclass for the merge). '
        'Non-trivial = result differs from the input or exception/warning observed.')


def vacuity(by_kind, by_outcome, extra, by_class):
    probs = []
    if not extra.get('schema_shaped'):
        probs.append('no schema-shaped case')
    if not any(k.startswith('Mos') for k in by_outcome):
        probs.append('no library exception observed at all')
    return probs


def doc_worker(ns, items, res, opts):
    """Classification of every H-DOC document: None or a MosRoMgrException subclass."""
    for label, text, trivial in items:
        for wf in ('always',):
            v = c08._classify(ns, 'str', text, None, wf)
            res.transitions += 1
            res.nontrivial += 0 if trivial else 1
            res.by_outcome['classify:' + v.split(':')[0]] += 1
            res.extra['documents_classified'] += 1
            if v.startswith('BUILTIN:'):
                explore.add_simple_finding(res, opts['prop'], f"CLASSIFY:{label.split(':')[0]}:{v.split(':')[1]}",
                                           f'classifying document {label!r} raised {v[8:]}', document=text, label=label)


def encoded_worker(ns, items, res, opts):
    """Well-formed documents stored in a declared encoding (ISO-8859-1, UTF-16, windows-1252, UTF-8 with BOM, ...), read
    as bytes, as a file, and through a collection reader: a class or a MosRoMgrException, never a built-in exception."""
    import os
    import tempfile
    import shutil
    tmp = tempfile.mkdtemp(prefix='mosmc-c12-')
    try:
        path = os.path.join(tmp, 'doc.mos.xml')
        for cls, enc, data in items:
            with open(path, 'wb') as f:
                f.write(data)
            for how, fn in (('from_string(bytes)', lambda: ns.mt.MosFile.from_string(data)),
                            ('from_file', lambda: ns.mt.MosFile.from_file(path)),
                            ('MosReader.from_file', lambda: ns.mc.MosReader.from_file(path).mos_object),
                            ('MosReader.from_string(bytes)', lambda: ns.mc.MosReader.from_string(data).mos_object)):
                res.transitions += 1
                res.nontrivial += 1
                try:
                    fn()
                    res.by_outcome['classify:encoded:ok'] += 1
                except ns.exc.MosRoMgrException as e:
                    res.by_outcome['classify:encoded:' + type(e).__name__] += 1
                except Exception as e:  # noqa
                    explore.add_simple_finding(res, opts['prop'], f'CLASSIFY:encoded:{enc}:{how}:{type(e).__name__}',
                                               f'{cls} stored as {enc}: {how} raised {type(e).__name__}: {e}', cls=cls, encoding=enc)
    finally:
        shutil.rmtree(tmp, ignore_errors=True)


def run(tier):
    parts = story_item_parts(tier, [mon_library_exceptions])
    names = list(coll.pool_nasty())
    seqs = list(c09.sequences(names, 2 if tier == 'quick' else 3))
    docs = [d for d in c08.documents(tier) if not d[0].startswith(('prefix:', 'deletion:', 'not-xml:'))]
    enum_parts = [{'label': 'collection-merges-self-referential-messages', 'worker': c09.worker, 'items': seqs,
                   'opts': {'c12': True, 'nasty': True}, 'chunk': 20},
                  {'label': 'classification-of-well-formed-documents', 'worker': doc_worker, 'items': docs, 'chunk': 100},
                  {'label': 'classification-of-documents-in-declared-encodings', 'worker': encoded_worker, 'items': list(c08.encoded_docs()), 'chunk': 40}]
    return runner.graph_check(
        'C12', tier, parts, rule=RULE + ' Plus: every sequence (length <= 2, thorough 3) over a pool of self-referential / '
        'blank / repeated-ID / unresolvable messages merged through MosCollection strict and non-strict (non-strict must run '
        'to the end), and the classification of every well-formed H-DOC document (as str; and, stored in a declared non-UTF-8 encoding, as bytes, as a file and through a collection reader).', vacuity=vacuity, enum_parts=enum_parts,
        assumptions=['schema-shaped = required tags present (IDs may be blank, unknown, repeated, self-referential); '
                     'roStoryInsert/roItemInsert/roItemReplace/roStoryReplace without their reference tag are not schema-shaped and are skipped',
                     'bounds as listed per part'])
