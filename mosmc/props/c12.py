"""C12 Well-formed input fails only with the library's own exceptions."""
from .. import runner
from ..monitors import mon_library_exceptions
from .common import story_item_parts, ALPHABET

RULE = (ALPHABET + 'States include running orders whose stories carry no timing metadata and states reached by merges '
        'that inserted such stories. Monitor: for every schema-shaped case the exception leaving MosFile.from_string / '
        '`ro += msg` is None or a MosRoMgrException subclass (a MosMergeError subclass for the merge). '
        'Non-trivial = result differs from the input or exception/warning observed.')


def vacuity(by_kind, by_outcome, extra, by_class):
    probs = []
    if not extra.get('schema_shaped'):
        probs.append('no schema-shaped case')
    if not any(k.startswith('Mos') for k in by_outcome):
        probs.append('no library exception observed at all')
    return probs


def run(tier):
    parts = story_item_parts(tier, [mon_library_exceptions])
    return runner.graph_check(
        'C12', tier, parts, rule=RULE, vacuity=vacuity,
        assumptions=['schema-shaped = required tags present (IDs may be blank, unknown, repeated, self-referential); '
                     'roStoryInsert/roItemInsert/roItemReplace/roStoryReplace without their reference tag are not schema-shaped and are skipped',
                     'bounds as listed per part'])
