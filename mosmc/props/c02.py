"""C02 Item order inside the addressed story follows the MOS protocol."""
from .. import runner, spec, gen
from ..harnesses import HItem
from ..monitors import OrderMonitor
from .common import mixed_part, live_part, live3_part

RULE = ('H-ITEM: the addressed story S1 holds every sequence of <=N distinct item IDs over a pool (prefix pair a/ab) '
        'in three interleaving patterns (items only; a <p> before every item and after the last; a foreign element '
        'first and last); a decoy story S2 holds the same item IDs; S1 sits before or after the decoy. Closed '
        'breadth-first under every item-level message (9 classes; item reference in {k-th existing, UNKNOWN, BLANK, '
        'ABSENT}; story reference in {S1, UNKNOWN, BLANK, ABSENT}; lists 1..L with and without repeats; both '
        'packings). Each transition runs on the real code and is compared with the list reference. Non-trivial = '
        'result differs from the input state or an exception/warning was observed.')


def vacuity(by_kind, by_outcome, extra, by_class):
    probs = [f'message class {k} never exercised' for k in spec.ITEM_KINDS if not by_kind.get(k)]
    if not extra.get('resolved_cases_expecting_change'):
        probs.append('no fully resolved case expected a change')
    if not extra.get('multiset_checked'):
        probs.append('no move/swap multiset check executed')
    return probs


def run(tier):
    mon = [OrderMonitor('item')]
    if tier == 'quick':
        parts = [
            {'label': 'items-only-pool5-cap4-L2', 'harness': HItem(pool=5, cap=4, max_list=2, patterns=('plain',)), 'monitors': mon},
            {'label': 'interleaved-pool4-cap3-L2', 'harness': HItem(pool=4, cap=3, max_list=2, patterns=('p-between', 'foreign'),
                                                               positions=('second',)), 'monitors': mon},
            {'label': 'exotic-ids', 'harness': HItem(pool=gen.EXOTIC_QUICK, cap=3, max_list=2, patterns=('plain',), positions=('second',)),
             'monitors': mon},
            {'label': 'pool4-cap3-L3', 'harness': HItem(pool=4, cap=3, max_list=3, patterns=('plain',), positions=('second',), packings=('one',)),
             'monitors': mon},
        ]
    else:
        parts = [
            {'label': 'items-only-pool6-cap5-L2', 'harness': HItem(pool=6, cap=5, max_list=2, patterns=('plain',)), 'monitors': mon},
            {'label': 'items-only-pool5-cap4-L3', 'harness': HItem(pool=5, cap=4, max_list=3, patterns=('plain',)), 'monitors': mon},
            {'label': 'interleaved-pool5-cap4-L2', 'harness': HItem(pool=5, cap=4, max_list=2, patterns=('p-between',), positions=('second',)), 'monitors': mon},
            {'label': 'foreign-pool4-cap4-L2', 'harness': HItem(pool=4, cap=4, max_list=2, patterns=('foreign',), positions=('first',)), 'monitors': mon},
            {'label': 'pretty-messages', 'harness': HItem(pool=4, cap=3, max_list=2, pretty_msgs=True), 'monitors': mon},
        ]
    parts.append({'label': 'pretty-printed-running-orders', 'harness': HItem(pool=4, cap=3, max_list=2, pretty_states=True, pretty_msgs=True, patterns=('p-between',), positions=('second',)),
                  'monitors': mon, 'opts': {'max_depth': 0}})
    parts.append(mixed_part(tier, mon))
    parts.append(live_part(tier, mon, spec.STORY_KINDS if 'c02' == 'c01' else spec.ITEM_KINDS))
    parts.append(live3_part(tier, mon, spec.STORY_KINDS if 'c02' == 'c01' else spec.ITEM_KINDS))
    return runner.graph_check(
        'C02', tier, parts, rule=RULE + ' Plus H-MIXED: the same messages in every state reached by one earlier message of ANY of the 24 classes '
        '(roReplace, roMetadataReplace, roStorySend, ...), as re-read text states and as two- and three-message histories on one live object.', vacuity=vacuity,
        assumptions=['item IDs are only compared for equality (data independence)',
                     'item IDs are unique and non-blank inside the addressed story (they repeat across stories)',
                     'the position of items relative to paragraphs/foreign elements is not part of the property: only the item-ID sequence is compared',
                     'several <element_source> tags (outside the MOS DTD) are only held to the multiset rule',
                     'bounds: items per story <= cap, list length <= L (see parts)'])
