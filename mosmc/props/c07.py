"""C07 Completion by roDelete is faithful, terminal and survives a round trip."""
from .. import runner, spec
from ..harnesses import HMixed, HCompletion
from ..monitors import mon_completion

RULE = ('H-MIXED: (a) from every initial shape, every message of all 24 mergeable classes (one step): only roDelete may '
        'complete; (b) histories <prefix of 0..P resolvable mutating messages>; roDelete; <every message of all 24 '
        'classes + roCreate + second roDelete>, explored breadth-first. Monitor: on the roDelete transition completed '
        'flips, the roCreate subtree and envelope are unchanged, mosromgrmeta/roDelete equals the sent element; on every '
        'transition from a completed state MosCompletedMergeError and identical serialisation; everywhere else completed '
        'stays False; MosFile.from_string(str(ro)) is a RunningOrder with the same completed flag. Non-trivial = result '
        'differs from input or exception/warning observed.')


def vacuity(by_kind, by_outcome, extra, by_class):
    probs = []
    for k in ('post_completion_transitions', 'completion_transitions', 'never_completed_checks'):
        if not extra.get(k):
            probs.append(f'{k} == 0')
    post = {k[5:] for k in by_class if k.startswith('post:')}
    for k in spec.ALL_KINDS + ('RunningOrder',):
        if k not in post:
            probs.append(f'class {k} never added to a completed running order')
    return probs


def collection_worker(ns, items, res, opts):
    """Histories <prefix>; roDelete; <further message> given to MosCollection in message-ID order, merged strict and
    non-strict.  Oracle (no reference to the fold of C09): the merged document is the one obtained by adding the prefix
    and the roDelete with `+`; it is completed; every further message is refused - strict: MosCompletedMergeError
    propagates, non-strict: one MosMergeNonStrictWarning per further message - and changes nothing."""
    import shutil
    import tempfile
    from .. import coll, explore, target
    from .c09 import run_collection
    prop = opts['prop']
    base, msgs = opts['base'], opts['msgs']
    tmp = tempfile.mkdtemp(prefix='mosmc-c07c-')
    store = coll.FakeS3()
    store.install(ns)

    def renum(text, n):
        return text.replace('<messageID>2000</messageID>', f'<messageID>{n}</messageID>', 1)
    try:
        for prefix, further in items:
            texts = [renum(msgs[i][1], 2000 + 10 * k) for k, i in enumerate(prefix)]
            rodel = gen_ro_delete(2500)
            later = [renum(msgs[i][1], 2600 + 10 * k) for k, i in enumerate(further)]
            ro, e = target.parse(ns, base)
            ok = True
            for t in texts + [rodel]:
                m, e = target.parse(ns, t)
                o = target.step_live(ns, ro, m)
                if o.exc is not None:
                    ok = False
                    break
            if not ok:
                res.extra['collection_histories_skipped_failing_prefix'] += 1
                continue
            want = str(ro)
            kinds = [msgs[i][0] for i in prefix] + ['RunningOrderEnd'] + [msgs[i][0] for i in further]
            for strict in (True, False):
                for ctor in ('strings', 'files') if further else ('strings',):
                    got = run_collection(ns, ctor, base, texts + [rodel] + later, strict, tmp, store, allow_incomplete=False)
                    res.transitions += 1
                    res.nontrivial += 1 if further else 0
                    res.extra['collection_histories'] += 1
                    res.by_outcome[f'collection:{got["exc"]}'] += 1
                    bad = None
                    if got['exc'] is not None and str(got['exc']).startswith('CTOR'):
                        bad = ('constructor', f'the collection was not built: {got["exc"]}')
                    elif got['text'] != want:
                        bad = ('content-changed-after-roDelete', 'str(mc) differs from the running order as it was when the roDelete was merged')
                    elif strict and further and got['exc'] != 'MosCompletedMergeError':
                        bad = ('not-refused:strict', f'strict merge ended with {got["exc"]} instead of MosCompletedMergeError')
                    elif strict and not further and got['exc'] is not None:
                        bad = ('raised', f'strict merge of a history that ends with the roDelete raised {got["exc"]}')
                    elif not strict and (got['exc'] is not None or got['nonstrict'] != len(further)):
                        bad = ('not-refused:non-strict', f'non-strict merge: exception {got["exc"]}, {got["nonstrict"]} MosMergeNonStrictWarning for {len(further)} messages after the roDelete')
                    if bad:
                        explore.add_simple_finding(res, prop, f'COLLECTION:{bad[0]}:strict={strict}:{kinds[-1] if further else "-"}',
                                                   f'collection {kinds} strict={strict} via from_{ctor}: {bad[1]}', ro=base, messages=texts + [rodel] + later)
                        break
    finally:
        shutil.rmtree(tmp, ignore_errors=True)


def gen_ro_delete(n):
    from .. import gen
    return gen.msg_ro_delete(msg_id=n)


def collection_items(tier):
    from .c09 import mixed_messages
    base, msgs = mixed_messages(1 if tier == 'quick' else 2)
    idx = [i for i, (k, _) in enumerate(msgs) if k != 'RunningOrderEnd']
    prefixes = [()] + [(i,) for i in idx[:: 3 if tier == 'quick' else 1]]
    items = []
    for p in prefixes:
        items.append((p, ()))
        for f in idx:
            items.append((p, (f,)))
        for f, g in zip(idx, idx[1:] + idx[:1]):
            items.append((p, (f, g)))
    return base, msgs, items


def run(tier):
    mon = [mon_completion]
    if tier == 'quick':
        parts = [
            {'label': 'one-step-all-classes', 'harness': HMixed(), 'monitors': mon, 'opts': {'max_depth': 0}},
            {'label': 'prefix<=1;roDelete;any', 'harness': HCompletion(max_list=1, layouts=('before',)), 'monitors': mon,
             'opts': {'max_depth': 2}},
        ]
    else:
        parts = [
            {'label': 'one-step-all-classes', 'harness': HMixed(init_shapes='all', meta_subsets=3), 'monitors': mon,
             'opts': {'max_depth': 0}},
            {'label': 'prefix<=2;roDelete;any', 'harness': HCompletion(max_list=2), 'monitors': mon, 'opts': {'max_depth': 3, 'max_states': 40000}},
        ]
    parts.append({'label': 'other-envelope', 'harness': HCompletion(envelope='trailing', init_shapes=[('A', 'AB')], layouts=('before',), max_list=1),
                  'monitors': mon, 'opts': {'max_depth': 2}})
    base, msgs, items = collection_items(tier)
    enum_parts = [{'label': 'collection-histories', 'worker': collection_worker, 'items': items, 'opts': {'base': base, 'msgs': msgs}, 'chunk': 20}]
    return runner.graph_check(
        'C07', tier, parts, rule=RULE + ' Plus (c) collection mode: histories <prefix of 0..1 messages>; roDelete; <1..2 further messages of '
        'every class> given to MosCollection (from_strings, from_files) in message-ID order, strict and non-strict: the merged document equals '
        'the running order as it was when the roDelete was added with `+`, strict raises MosCompletedMergeError, non-strict emits one '
        'MosMergeNonStrictWarning per further message.', vacuity=vacuity, enum_parts=enum_parts,
        assumptions=['further collection-mode histories (the roDelete at every position of longer sequences) are explored by C09',
                     'the CLI "(completed)" marker is checked by C19'])
