"""C07 Completion by roDelete is faithful, terminal and survives a round trip."""
from .. import runner, spec
from ..harnesses import HMixed, HCompletion
from ..monitors import mon_completion

RULE = ('H-MIXED: (a) from every initial shape, every message of all 24 mergeable classes (one step): only roDelete may '
        'complete; (b) histories <prefix of 0..P resolvable mutating messages>; roDelete; <every message of all 24 '
        'classes + roCreate + second roDelete>, explored breadth-first. Monitor: on the roDelete transition completed '
        'flips, the roCreate subtree and envelope are unchanged, mosromgrmeta/roDelete equals the sent element; on every '
        'transition from a completed state MosCompletedMergeError and identical serialisation; everywhere else completed '
        'stays False; MosFile.from_string(str(ro)) is a RunningOrder with the same completed flag. Non-trivial = result '
        'differs from input or exception/warning observed.')


def vacuity(by_kind, by_outcome, extra, by_class):
    probs = []
    for k in ('post_completion_transitions', 'completion_transitions', 'never_completed_checks'):
        if not extra.get(k):
            probs.append(f'{k} == 0')
    post = {k[5:] for k in by_class if k.startswith('post:')}
    for k in spec.ALL_KINDS + ('RunningOrder',):
        if k not in post:
            probs.append(f'class {k} never added to a completed running order')
    return probs


def run(tier):
    mon = [mon_completion]
    if tier == 'quick':
        parts = [
            {'label': 'one-step-all-classes', 'harness': HMixed(), 'monitors': mon, 'opts': {'max_depth': 0}},
            {'label': 'prefix<=1;roDelete;any', 'harness': HCompletion(max_list=1, layouts=('before',)), 'monitors': mon,
             'opts': {'max_depth': 2}},
        ]
    else:
        parts = [
            {'label': 'one-step-all-classes', 'harness': HMixed(init_shapes='all', meta_subsets=3), 'monitors': mon,
             'opts': {'max_depth': 0}},
            {'label': 'prefix<=2;roDelete;any', 'harness': HCompletion(max_list=2), 'monitors': mon, 'opts': {'max_depth': 3, 'max_states': 40000}},
        ]
    parts.append({'label': 'other-envelope', 'harness': HCompletion(envelope='trailing', init_shapes=[('A', 'AB')], layouts=('before',), max_list=1),
                  'monitors': mon, 'opts': {'max_depth': 2}})
    return runner.graph_check(
        'C07', tier, parts, rule=RULE, vacuity=vacuity,
        assumptions=['collection-mode histories (strict / non-strict with the roDelete at every position) are explored by C09',
                     'the CLI "(completed)" marker is checked by C19'])
