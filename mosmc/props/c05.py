"""C05 A merge that raises leaves the running order exactly as it was."""
from .. import runner
from ..monitors import mon_unchanged_on_raise
from .common import story_item_parts, ALPHABET

RULE = (ALPHABET + 'Monitor: for every transition whose `+` raises anything, str(ro) after the exception must equal '
        'str(ro) before (literal string comparison; the live object that raised is serialised). Covers each position '
        'k of an unresolvable ID inside an n-element list, unknown/blank targets, unknown story, identical swap '
        'operands. Non-trivial = result differs from the input state or exception/warning observed.')


def vacuity(by_kind, by_outcome, extra, by_class):
    probs = []
    if not extra.get('raising_transitions'):
        probs.append('no raising transition was explored')
    if len([k for k in by_class]) < 20:
        probs.append(f'only {len(by_class)} distinct raising case classes')
    return probs


def run(tier):
    parts = story_item_parts(tier, [mon_unchanged_on_raise])
    return runner.graph_check(
        'C05', tier, parts, rule=RULE, vacuity=vacuity,
        assumptions=['the failing `+` is observed on freshly parsed objects; str() of the same live object is compared',
                     'bounds as listed per part'])
