"""C05 A merge that raises leaves the running order exactly as it was."""
from .. import runner
from ..monitors import mon_unchanged_on_raise
from .common import story_item_parts, ALPHABET
from . import c09
from .. import coll

RULE = (ALPHABET + 'Monitor: for every transition whose `+` raises anything, str(ro) after the exception must equal '
        'str(ro) before (literal string comparison; the live object that raised is serialised). Covers each position '
        'k of an unresolvable ID inside an n-element list, unknown/blank targets, unknown story, identical swap '
        'operands. Non-trivial = result differs from the input state or exception/warning observed.')


def vacuity(by_kind, by_outcome, extra, by_class):
    probs = []
    if not extra.get('raising_transitions'):
        probs.append('no raising transition was explored')
    if len([k for k in by_class]) < 20:
        probs.append(f'only {len(by_class)} distinct raising case classes')
    return probs


def run(tier):
    parts = story_item_parts(tier, [mon_unchanged_on_raise])
    names = list(coll.pool_messages())
    L = 3 if tier == 'quick' else 4
    seqs = list(c09.sequences(names[:11] if tier == 'quick' else names, L))
    nasty = list(c09.sequences(list(coll.pool_nasty()), 2 if tier == 'quick' else 3))
    enum_parts = [{'label': 'collection-sequences', 'worker': c09.worker, 'items': seqs, 'opts': {'c05': True}, 'chunk': 40},
                  {'label': 'collection-sequences-self-referential', 'worker': c09.worker, 'items': nasty, 'opts': {'c05': True, 'nasty': True}, 'chunk': 40}]
    return runner.graph_check(
        'C05', tier, parts, rule=RULE + ' Plus: every message sequence of H-COLL (every subset and placement of failing '
        'messages, self-referential/blank/repeated-ID messages) folded with `+`: after each failing step the running order '
        'equals the one before it.', vacuity=vacuity, enum_parts=enum_parts,
        assumptions=['the failing `+` is observed on freshly parsed objects; str() of the same live object is compared',
                     'bounds as listed per part'])
