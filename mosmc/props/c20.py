"""C20 Message objects expose exactly the targets and sources the message names."""
import io
import itertools
import contextlib

from .. import runner, explore, gen, tree
from ..gen import BLANK, ABSENT
from ..harnesses import render_case
from ..monitors import _expected_story_from_send, _msg_base

RULE = ('Every message class x 1..N sources (N=3 quick, 5 thorough; IDs or carried elements) with a blank ID at every list position x target in '
        '{present, BLANK, ABSENT where the schema allows} x {compact, pretty-printed} x ID pool in {plain, exotic: "0", "00", "None", '
        '"False", "-1", "0.0", non-ASCII, an inner blank}. '
        'Oracle from the abstract case: the exposed source lists carry exactly the named IDs in message order (a blank listed '
        'ID is None, never another ID); the exposed target carries the named ID, a blank/absent target is None or an element '
        'whose id is None; carried stories/items are exposed with their content (subtree equality against an independent '
        'parse of the message text); inspect() returns and its output contains every non-blank source ID (delimited by '
        'non-alphanumeric characters). Non-trivial = more than one source, a blank ID, a blank/absent target or pretty-printing.')

S_IDS = ['A', 'AB', 'C', 'G', 'H']
I_IDS = ['a', 'ab', 'c', 'g', 'h']
P_IDS = ['D', 'E', 'F', 'I', 'J']
PI_IDS = ['d', 'e', 'f', 'i2', 'j']

# ID pools: every case is generated over the plain pool and again with its IDs replaced one-for-one by "exotic" well-formed
# IDs: strings that look false, numeric or like None, a prefix pair of them, non-ASCII, an inner blank.
EXOTIC = {'A': '0', 'AB': '00', 'C': 'é☃', 'G': 'x y', 'H': '-1', 'D': 'Ω', 'E': 'None', 'F': '0.0', 'I': 'False', 'J': 'ж',
          'a': '0', 'ab': '00', 'c': 'ü ', 'g': 'i d', 'h': '-0', 'd': 'ø', 'e': 'None', 'f': '0.0', 'i2': 'nan', 'j': 'ы'}
EXOTIC['c'] = 'ü'
POOLS = {'plain': {}, 'exotic': EXOTIC}
_KEEP = ('kind', 'packing', 'body_pos', 'timing', 'rich', 'pool', 'n')


def subst(x, mp):
    if isinstance(x, str):
        return mp.get(x, x)
    if isinstance(x, tuple):
        if len(x) == 2 and x[0] in ('p', 'x') and not isinstance(x[1], tuple):
            return x
        return tuple(subst(y, mp) for y in x)
    return x


def with_pool(case, pool):
    mp = POOLS[pool]
    c = {k: (v if k in _KEEP else subst(v, mp)) for k, v in case.items()}
    c['pool'] = pool
    return c


def pool_ids(case, ids):
    mp = POOLS[case.get('pool', 'plain')]
    return [mp.get(i, i) for i in ids]


def story_fn(i, v):
    return gen.story_xml(i, v, body=(('p', 'plain'), ('i', 'a'), ('i', 'c')), rich=True)


def item_fn(i, v):
    return gen.item_xml(i, v, owner='m', rich=True, fields=('slug', 'objID'))


def id_lists(pool, n):
    """Lists of length 1..n over the pool in order, with BLANK substituted at each single position."""
    for k in range(1, n + 1):
        base = tuple(pool[:k])
        yield base
        for p in range(k):
            yield base[:p] + (BLANK,) + base[p + 1:]
        if k >= 2:
            # an ID named twice is named twice: the exposed list is the message's list
            yield base + (base[0],)
            yield (base[-1],) + base


def cases(tier):
    N = 3 if tier == 'quick' else 5
    tgt_s = ['AB', BLANK, ABSENT]
    tgt_i = ['ab', BLANK]
    out = []
    for n in range(1, N + 1):
        pl = tuple((i, 0) for i in P_IDS[:n])
        ipl = tuple((i, 0) for i in PI_IDS[:n])
        out.append({'kind': 'StoryAppend', 'payload': pl})
        for t in tgt_s:
            if t != ABSENT:
                out.append({'kind': 'StoryInsert', 'tgt': t, 'payload': pl})
                out.append({'kind': 'StoryReplace', 'tgt': t, 'payload': pl})
                out.append({'kind': 'EAStoryReplace', 'tgt': t, 'payload': pl})
            out.append({'kind': 'EAStoryInsert', 'tgt': t, 'payload': pl})
        for st in ('A', BLANK):
            for t in tgt_i:
                out.append({'kind': 'ItemInsert', 'story': st, 'tgt': t, 'payload': ipl})
                out.append({'kind': 'ItemReplace', 'story': st, 'tgt': t, 'payload': ipl})
                out.append({'kind': 'EAItemInsert', 'story': st, 'tgt': t, 'payload': ipl})
                out.append({'kind': 'EAItemReplace', 'story': st, 'tgt': t, 'payload': ipl})
    for srcs in id_lists(S_IDS, N):
        out.append({'kind': 'StoryDelete', 'srcs': srcs})
        for packing in ('one',):      # several element_source tags are outside the MOS DTD: not schema-shaped
            out.append({'kind': 'EAStoryDelete', 'srcs': srcs, 'packing': packing})
            # a story DELETE may carry an (ignored) element_target
            out.append({'kind': 'EAStoryDelete', 'srcs': srcs, 'packing': packing, 'etgt': BLANK})
            out.append({'kind': 'EAStoryDelete', 'srcs': srcs, 'packing': packing, 'etgt': 'D'})
            for t in tgt_s:
                out.append({'kind': 'EAStoryMove', 'tgt': t, 'srcs': srcs, 'packing': packing})
        if len(srcs) == 2:
            out.append({'kind': 'EAStorySwap', 'srcs': srcs})
            out.append({'kind': 'EAStorySwap', 'srcs': srcs, 'etgt': BLANK})
    for src in S_IDS[:1] + [BLANK]:
        for t in tgt_s:
            out.append({'kind': 'StoryMove', 'src': src, 'tgt': t})
    for srcs in id_lists(I_IDS, N):
        for st in ('A', BLANK):
            out.append({'kind': 'ItemDelete', 'story': st, 'srcs': srcs})
            for t in tgt_i:
                out.append({'kind': 'ItemMoveMultiple', 'story': st, 'tgt': t, 'srcs': srcs})
            for packing in ('one',):
                out.append({'kind': 'EAItemDelete', 'story': st, 'srcs': srcs, 'packing': packing})
                for t in tgt_i:
                    out.append({'kind': 'EAItemMove', 'story': st, 'tgt': t, 'srcs': srcs, 'packing': packing})
            if len(srcs) == 2:
                out.append({'kind': 'EAItemSwap', 'story': st, 'srcs': srcs})
    for sid in ('A', BLANK):
        for pos in ('first', 'middle', 'last', 'only'):
            for body in ((), (('p', 'plain'), ('i', 'e')), (('i', 'e'), ('p', 'empty'), ('i', 'f'), ('x', 1))):
                out.append({'kind': 'StorySend', 'sid': sid, 'body': body, 'body_pos': pos, 'rich': True, 'timing': 'both'})
    out.append({'kind': 'RunningOrderEnd'})
    out.append({'kind': 'ReadyToAir'})
    out.append({'kind': 'MetaDataReplace'})
    for n in range(0, N + 1):
        out.append({'kind': 'RunningOrderReplace', 'n': n})
    items = []
    for pool in POOLS:
        for c in out:
            for pretty in (False, True):
                items.append((with_pool(c, pool), pretty))
    return items


def render(case):
    k = case['kind']
    if k == 'MetaDataReplace':
        return gen.msg_metadata_replace(['<roSlug>the new slug</roSlug>', '<roChannel>c</roChannel>'])
    if k == 'RunningOrderReplace':
        return gen.msg_ro_replace([story_fn(i, 1) for i in pool_ids(case, S_IDS[:case['n']])])
    return render_case(case, story_fn, item_fn)


def _id(x):
    return None if x in (BLANK, ABSENT) else x


def _ids_of(objs):
    return [o.id for o in objs]


def worker(ns, items, res, opts):
    prop = opts['prop']
    for case, pretty in items:
        kind = case['kind']
        text = render(case)
        if pretty:
            text = gen.prettify(text)
        res.transitions += 1
        srcs = case.get('srcs') or tuple(p[0] for p in case.get('payload', ()))
        tgt = case.get('tgt', None)
        if pretty or len(srcs) > 1 or BLANK in srcs or tgt in (BLANK, ABSENT) or case.get('story') == BLANK:
            res.nontrivial += 1
        res.by_class[kind] += 1
        res.by_class['pool:' + case.get('pool', 'plain')] += 1

        def bad(dev, detail):
            shape = f"n={len(srcs)}" + (',blank-src' if BLANK in srcs else '') + (f',tgt={gen.ref_name(tgt)}' if tgt in (BLANK, ABSENT) else '') + \
                    (f",packing={case['packing']}" if case.get('packing') == 'per' else '') + (',pretty' if pretty else '') + (',exotic-ids' if case.get('pool') == 'exotic' else '')
            explore.add_simple_finding(res, prop, f'{kind}:{shape}:{dev}', f'{kind} {_show(case)}{" (pretty)" if pretty else ""}: {detail}',
                                       message=text, case=_show(case))
        try:
            m = ns.mt.MosFile.from_string(text)
        except Exception as e:  # noqa
            res.by_outcome['unparsed'] += 1
            bad('unparsed', f'does not classify: {type(e).__name__}: {e}')
            continue
        if type(m).__name__ != kind:
            bad('class', f'classified as {type(m).__name__}')
            continue
        res.by_outcome[f'parsed:sources={len(srcs)}:blank-source={BLANK in srcs}:target={gen.ref_name(tgt) if tgt in (BLANK, ABSENT) else "id" if tgt else "-"}'] += 1
        base = _msg_base(text)
        try:
            yield_from = list(check(ns, m, case, base))
        except Exception as e:  # noqa
            bad(f'accessor-raised:{type(e).__name__}', f'an accessor raised {type(e).__name__}: {e}')
            continue
        for dev, detail in yield_from:
            bad(dev, detail)
        if not yield_from and not pretty:
            # the same message arriving as bytes / as a file in a declared non-UTF-8 encoding exposes the same
            import os as _os
            import tempfile as _tf
            data = ('<?xml version="1.0" encoding="UTF-16"?>' + text).encode('utf-16')
            srcs_ = [('utf-16 bytes', lambda: ns.mt.MosFile.from_string(data))]
            try:
                l1 = ('<?xml version="1.0" encoding="ISO-8859-1"?>' + text).encode('iso-8859-1')
                srcs_.append(('iso-8859-1 bytes', lambda: ns.mt.MosFile.from_string(l1)))
            except UnicodeEncodeError:
                l1 = None
            fd, pth = _tf.mkstemp(suffix='.mos.xml', prefix='mosmc-c20-')
            with _os.fdopen(fd, 'wb') as f:
                f.write(l1 if l1 is not None else data)
            srcs_.append(('iso-8859-1 file' if l1 is not None else 'utf-16 file', lambda: ns.mt.MosFile.from_file(pth)))
            for sname, fn in srcs_:
                try:
                    m2 = fn()
                    devs = list(check(ns, m2, case, base)) if type(m2).__name__ == kind else [('class', f'classified as {type(m2).__name__}')]
                except Exception as e:  # noqa
                    devs = [(f'raised:{type(e).__name__}', f'{type(e).__name__}: {e}')]
                res.extra['rechecked_from_encoded_source'] += 1
                for dev, detail in devs[:1]:
                    bad(f'from-{sname.replace(" ", "-")}:' + dev, f'read from {sname}: ' + detail)
            _os.unlink(pth)
        if not yield_from and kind in _STORY_CARRIERS:
            # the message object must expose the same after it has been merged and the running order that
            # received it was edited inside the carried story
            try:
                again = list(after_merge_and_edit(ns, m, case, base, text))
            except Exception as e:  # noqa
                again = [(f'accessor-raised-after-merge:{type(e).__name__}', f'an accessor raised {type(e).__name__}: {e}')]
            res.extra['rechecked_after_merge_and_edit'] += 1
            for dev, detail in again:
                bad('after-merge-and-edit:' + dev, 'after `ro += msg` and an item insert/delete inside the carried story: ' + detail)
        # inspect
        buf = io.StringIO()
        try:
            with contextlib.redirect_stdout(buf):
                m.inspect()
        except Exception as e:  # noqa
            bad(f'inspect-raised:{type(e).__name__}', f'inspect() raised {type(e).__name__}: {e}')
            continue
        text_out = buf.getvalue()
        toks = _Tokens(text_out)
        if kind not in ('RunningOrderReplace', 'MetaDataReplace'):
            missing = [s for s in srcs if s not in (BLANK, ABSENT) and s not in toks]
            if kind == 'StorySend' and _id(case['sid']) and case['sid'] not in toks:
                missing.append(case['sid'])
            if kind == 'StoryMove' and _id(case['src']) and case['src'] not in toks:
                missing.append(case['src'])
            if missing:
                bad('inspect-omits-source', f'inspect() output {buf.getvalue()!r} does not mention {missing}')
        if len(res.samples) < 2 and (res.transitions + opts.get('seed', 0)) % 61 == 0:
            res.samples.append({'case': _show(case), 'pretty': pretty, 'inspect_output': buf.getvalue()[:200]})


class _Tokens:
    """`id in tokens`: the ID occurs in the text delimited by non-alphanumeric characters (the pools hold
    IDs that are prefixes of one another, so a plain substring test would be too weak)."""

    def __init__(self, text):
        self.text = text

    def __contains__(self, ident):
        import re
        return re.search(r'(?<![A-Za-z0-9])' + re.escape(ident) + r'(?![A-Za-z0-9])', self.text) is not None


def _show(case):
    return {k: ([gen.ref_name(x) if isinstance(x, str) else x for x in v] if isinstance(v, tuple) else
                gen.ref_name(v) if isinstance(v, str) else v) for k, v in case.items()}


def _blank_ok(obj, what):
    """A blank/absent target must be reported as absent: None, or an element whose id is None."""
    if obj is None:
        return None
    if obj.id is None:
        return None
    return ('blank-target-reported-as-id', f'{what} is blank/absent in the message but exposed with id {obj.id!r}')


def _content(objs, elems, what):
    for o, e in zip(objs, elems):
        a, b = tree.strip_tail(tree.node(o.xml)), tree.strip_tail(tree.node(e))
        if a != b:
            return ('carried-content-differs', f'{what} {o.id}: exposed element differs from the message text: {tree.first_diff(b, a)}')
    return None


_STORY_CARRIERS = ('StoryAppend', 'StoryInsert', 'StoryReplace', 'EAStoryInsert', 'EAStoryReplace', 'StorySend', 'RunningOrderReplace')


def base_running_order(case):
    st = [gen.story_xml(i, 0, body=(('p', 'plain'), ('i', 'a'), ('i', 'ab'), ('i', 'c'))) for i in pool_ids(case, S_IDS)]
    return gen.ro_text(st, 'before', gen.meta_elems(2))


def after_merge_and_edit(ns, m, case, base, text):
    import warnings as _w
    ro = ns.mt.MosFile.from_string(base_running_order(case))
    with _w.catch_warnings():
        _w.simplefilter('ignore')
        try:
            ro += m
        except ns.exc.MosMergeError:
            return
        carried = [p[0] for p in case.get('payload', ())] or ([case['sid']] if case['kind'] == 'StorySend' else pool_ids(case, S_IDS[:case.get('n', 0)]))
        edits = 0
        for cid in carried:
            if cid in (BLANK, ABSENT):
                continue
            for t in (gen.msg_item_insert(cid, BLANK, [gen.item_xml('zz9', 0, 'edit')], msg_id=2600),
                      gen.msg_item_delete(cid, ['a'], msg_id=2601)):
                try:
                    ro += ns.mt.MosFile.from_string(t)
                    edits += 1
                except ns.exc.MosMergeError:
                    pass
    if edits:
        yield from check(ns, m, case, _msg_base(text))


def check(ns, m, case, base):
    kind = case['kind']
    src_parent = base
    if base.tag == 'roElementAction':
        src_parent = base.find('element_source')

    def target(obj, ref, what):
        if ref in (BLANK, ABSENT):
            r = _blank_ok(obj, what)
            if r:
                yield r
        elif obj is None or obj.id != ref:
            yield ('target-id', f'{what}: exposed id {getattr(obj, "id", None)!r}, message names {ref!r}')

    def sources(objs, refs, what):
        got = _ids_of(objs)
        want = [_id(r) for r in refs]
        # a blank listed ID names nothing: exposing it as None or leaving it out are both "exactly the IDs named"
        if got != want and got != [w for w in want if w is not None]:
            dev = 'source-count' if len(got) != len(want) else 'blank-source-reported-as-id' if any(w is None and g is not None for g, w in zip(got, want)) else 'source-ids'
            yield (dev, f'{what}: exposed ids {got}, message names {want}')

    if kind == 'StoryAppend':
        yield from sources(m.stories, [p[0] for p in case['payload']], 'stories')
        r = _content(m.stories, [c for c in base if c.tag == 'story'], 'story')
        if r:
            yield r
    elif kind == 'StoryInsert':
        yield from target(m.target_story, case['tgt'], 'target_story')
        yield from sources(m.source_stories, [p[0] for p in case['payload']], 'source_stories')
        r = _content(m.source_stories, [c for c in base if c.tag == 'story'], 'story')
        if r:
            yield r
    elif kind in ('StoryReplace', 'EAStoryReplace', 'EAStoryInsert'):
        yield from target(m.story, case['tgt'], 'story (target)')
        yield from sources(m.stories, [p[0] for p in case['payload']], 'stories')
        r = _content(m.stories, [c for c in src_parent if c.tag == 'story'], 'story')
        if r:
            yield r
    elif kind in ('ItemInsert', 'ItemReplace', 'EAItemInsert', 'EAItemReplace'):
        yield from target(m.story, case['story'], 'story')
        yield from target(m.item, case['tgt'], 'item (target)')
        yield from sources(m.items, [p[0] for p in case['payload']], 'items')
        r = _content(m.items, [c for c in src_parent if c.tag == 'item'], 'item')
        if r:
            yield r
    elif kind in ('StoryDelete', 'EAStoryDelete'):
        yield from sources(m.stories, case['srcs'], 'stories')
    elif kind == 'EAStoryMove':
        yield from target(m.story, case['tgt'], 'story (target)')
        yield from sources(m.stories, case['srcs'], 'stories')
    elif kind == 'EAStorySwap':
        yield from sources(list(m.stories), case['srcs'], 'stories')
    elif kind == 'StoryMove':
        yield from target(m.source_story, case['src'], 'source_story')
        yield from target(m.target_story, case['tgt'], 'target_story')
    elif kind in ('ItemDelete', 'EAItemDelete'):
        yield from target(m.story, case['story'], 'story')
        yield from sources(m.items, case['srcs'], 'items')
    elif kind in ('ItemMoveMultiple', 'EAItemMove'):
        yield from target(m.story, case['story'], 'story')
        yield from target(m.item, case['tgt'], 'item (target)')
        yield from sources(m.items, case['srcs'], 'items')
    elif kind == 'EAItemSwap':
        yield from target(m.story, case['story'], 'story')
        yield from sources(list(m.items), case['srcs'], 'items')
    elif kind == 'StorySend':
        s = m.story
        if s.id != _id(case['sid']):
            yield ('target-id', f'story.id {s.id!r}, message names {_id(case["sid"])!r}')
        exp = _expected_story_from_send(base)
        got = tree.strip_tail(tree.node(s.xml))
        if got != exp:
            yield ('carried-content-differs', f'story differs from the sent story: {tree.first_diff(exp, got)}')
        want_items = [tree.child_text(c, 'itemID') for b in base if b.tag == 'storyBody' for c in b if c.tag == 'storyItem']
        if _ids_of(s.items) != want_items:
            yield ('source-ids', f'story.items {_ids_of(s.items)} vs storyItem ids {want_items}')
    elif kind == 'RunningOrderEnd':
        if m.ro_id != gen.RO_ID:
            yield ('ro-id', f'ro_id {m.ro_id!r}')
    elif kind == 'MetaDataReplace':
        if m.ro_slug != 'the new slug':
            yield ('ro-slug', f'ro_slug {m.ro_slug!r}')
    elif kind == 'RunningOrderReplace':
        want = pool_ids(case, S_IDS[:case['n']])
        if _ids_of(m.stories) != want:
            yield ('source-ids', f'stories {_ids_of(m.stories)} vs {want}')
        r = _content(m.stories, [c for c in base if c.tag == 'story'], 'story')
        if r:
            yield r
    elif kind == 'ReadyToAir':
        pass
    else:
        raise ValueError(kind)
    if m.ro_id != gen.RO_ID or m.message_id != 2000:
        yield ('envelope', f'ro_id {m.ro_id!r} message_id {m.message_id!r}')


def vacuity(tot):
    from ..spec import ALL_KINDS
    return [f'message class {k} never exercised' for k in ALL_KINDS if not tot.by_class.get(k)]


def run(tier):
    items = cases(tier)
    parts = [{'label': 'messages', 'worker': worker, 'items': items, 'chunk': 60}]
    return runner.enum_check(
        'C20', tier, parts, rule=RULE, vacuity=vacuity,
        assumptions=['a message without any source ID (eg roStoryMove without storyIDs) is not schema-shaped and is not generated',
                     'token match for inspect(): the ID pools contain IDs that are prefixes of one another'])
