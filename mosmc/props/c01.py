"""C01 Story order after any story-level merge follows the MOS protocol."""
from .. import runner, spec, gen
from ..harnesses import HStory
from ..monitors import OrderMonitor
from .common import mixed_part, live_part, live3_part

RULE = ('H-STORY: every sequence of <=N distinct story IDs over a pool (with a prefix pair A/AB) x 4 roCreate '
        'layouts (metadata before / between / after the stories / none) as initial states, closed breadth-first '
        'under every story-level message of the alphabet (11 message classes; every reference in {k-th existing, '
        'UNKNOWN, BLANK, ABSENT}; source/payload lists of length 1..L with and without repeats; both '
        'roElementAction packings). Each transition is executed on the real code from freshly parsed texts and '
        'compared with the list reference (seqref/spec). Non-trivial = the result differs from the input state or '
        'an exception/warning was observed.')


def vacuity(by_kind, by_outcome, extra, by_class):
    probs = [f'message class {k} never exercised' for k in spec.STORY_KINDS if not by_kind.get(k)]
    if not extra.get('resolved_cases_expecting_change'):
        probs.append('no fully resolved case expected a change')
    if not extra.get('multiset_checked'):
        probs.append('no move/swap multiset check executed')
    return probs


def run(tier):
    mon = [OrderMonitor('story')]
    if tier == 'quick':
        parts = [
            {'label': 'pool5-cap4-L2', 'harness': HStory(pool=5, cap=4, max_list=2, layouts=('before', 'after', 'none')),
             'monitors': mon},
            {'label': 'between-pool4-cap3-L2', 'harness': HStory(pool=4, cap=3, max_list=2, layouts=('between',), nmeta=2),
             'monitors': mon},
            {'label': 'no-timing-metadata', 'harness': HStory(pool=4, cap=3, max_list=2, layouts=('before',), timing='nometa'),
             'monitors': mon},
            {'label': 'exotic-ids', 'harness': HStory(pool=gen.EXOTIC_QUICK, cap=3, max_list=2, layouts=('before',)), 'monitors': mon},
            {'label': 'pool4-cap3-L3', 'harness': HStory(pool=4, cap=3, max_list=3, layouts=('before',), packings=('one',)), 'monitors': mon},
        ]
    else:
        parts = [
            {'label': 'pool6-cap5-L2', 'harness': HStory(pool=6, cap=5, max_list=2, layouts=('before', 'after', 'none')), 'monitors': mon},
            {'label': 'between-pool5-cap4-L2', 'harness': HStory(pool=5, cap=4, max_list=2, layouts=('between',), nmeta=2), 'monitors': mon},
            {'label': 'pool5-cap4-L3', 'harness': HStory(pool=5, cap=4, max_list=3, layouts=('before',)), 'monitors': mon},
            {'label': 'no-timing-metadata', 'harness': HStory(pool=5, cap=4, max_list=2, layouts=('before',),
                                                             timing={'A': 'nometa', 'AB': 'dur', 'C': 'none', 'D': 'both', 'E': 'nometa'}),
             'monitors': mon},
            {'label': 'pretty-messages', 'harness': HStory(pool=4, cap=3, max_list=2, pretty_msgs=True, layouts=('before', 'between'), nmeta=2),
             'monitors': mon},
            {'label': 'exotic-ids', 'harness': HStory(pool=gen.EXOTIC_IDS, cap=4, max_list=2, layouts=('before',)), 'monitors': mon},
        ]
    parts.append({'label': 'pretty-printed-running-orders', 'harness': HStory(pool=4, cap=3, max_list=2, pretty_states=True, pretty_msgs=True, layouts=('before', 'between'), nmeta=2),
                  'monitors': mon, 'opts': {'max_depth': 0}})
    parts.append(mixed_part(tier, mon))
    parts.append(live_part(tier, mon, spec.STORY_KINDS if 'c01' == 'c01' else spec.ITEM_KINDS))
    parts.append(live3_part(tier, mon, spec.STORY_KINDS if 'c01' == 'c01' else spec.ITEM_KINDS))
    return runner.graph_check(
        'C01', tier, parts, rule=RULE + ' Plus H-MIXED: the same messages in every state reached by one earlier message of ANY of the 24 classes '
        '(roReplace, roMetadataReplace, roStorySend, ...), as re-read text states and as two- and three-message histories on one live object.', vacuity=vacuity,
        assumptions=['story IDs are only compared for equality (data independence): a pool with a prefix pair represents all IDs',
                     'running orders have unique, non-blank story IDs (precondition of the property)',
                     'several <element_source> tags (outside the MOS DTD) are only held to the multiset rule',
                     'bounds: stories per running order <= cap, list length <= L (see parts)'])
