"""C09 Collection merge equals adding the messages one by one; strict/non-strict hold."""
import os
import shutil
import tempfile
import warnings
import itertools
from collections import Counter

from .. import runner, explore, coll

RULE = ('H-COLL: every sequence (ordered, without repetition) of length <= L over a pool of P concrete messages - mutating, '
        'no-op, warning-only, failing with MosMergeError at list position 1 and at position 2, order-dependent, roDelete '
        '(everything after it fails with MosCompletedMergeError) - hence every subset and placement of failing messages, '
        'x {strict, non-strict} x {from_strings, from_files, from_s3 (fake)} x roCreate message ID {lowest, in the middle of the others}. Oracle (differential): the harness folds '
        '`ro += fresh parse` over the messages in ascending message-ID order; strict: the same exception type propagates '
        'and str(mc) equals the fold stopped there; non-strict: no exception, exactly one MosMergeNonStrictWarning per '
        'failing message, every other mosromgr warning as in the fold, str(mc) equals the fold skipping exactly the '
        'failing messages. state = running order after each fold step; transition = one message of one sequence. Plus every ordered pair of messages over one (thorough: three) message(s) of each of the 24 mergeable classes. Second route: '
        'TLC checks six invariants on every reachable state of tla/CollMerge.tla (N messages of kinds ok/fail/roDelete x '
        'strict/non-strict) and every reachable model state is replayed against the real MosCollection (applied set, '
        'completed flag, warning count, propagated exception must agree).')


def sequences(names, L):
    for n in range(0, L + 1):
        yield from itertools.permutations(names, n)


def worker(ns, items, res, opts):
    prop = opts['prop']
    pool = coll.pool_nasty() if opts.get('nasty') else coll.pool_messages()
    tmp = tempfile.mkdtemp(prefix='mosmc-c09-')
    store = coll.FakeS3()
    store.install(ns)
    try:
        for seq in items:
            texts = [pool[name](2000 + 10 * k) for k, name in enumerate(seq)]
            # the same sequence twice: roCreate with the lowest message ID, and (a message-ID counter may
            # have restarted) roCreate with an ID in the middle of the others
            variants = [coll.base_ro()]
            if len(seq) >= 2 and not opts.get('c05') and not opts.get('c12'):
                variants.append(coll.base_ro(msg_id=2000 + 10 * (len(seq) // 2) - 5))
            for vi, ro_text in enumerate(variants):
                for strict in (True, False):
                    _one(ns, res, opts, prop, seq, texts, ro_text, strict, tmp, store, 'mid' if vi else 'first')
            if len(res.samples) < 2 and (len(seq) + opts.get('seed', 0)) % 3 == 0 and len(seq) >= 2:
                res.samples.append({'sequence': list(seq)})
    finally:
        shutil.rmtree(tmp, ignore_errors=True)


def _one(ns, res, opts, prop, seq, texts, ro_text, strict, tmp, store, ro_pos):
    problems = []

    def unchanged(k, t, before, after, e):
        if before != after:
            problems.append((k, type(e).__name__))
    ref = coll.fold(ns, ro_text, texts, strict, check_unchanged=unchanged)
    res.extra['states'] += len(texts) + 1
    if opts.get('c05'):
        res.transitions += len(texts)
        res.nontrivial += len(ref['failed'])
        res.by_outcome['failing-steps=%d' % len(ref['failed'])] += 1
        res.extra['raising_steps'] += len(ref['failed'])
        for k, en in problems:
            explore.add_simple_finding(res, prop, f'COLLECTION:{seq[k]}:mutated-before-raise:{en}',
                                       f'sequence {list(seq)} (strict={strict}): message #{k} {seq[k]} raised {en} but changed the running order',
                                       sequence=list(seq), ro=ro_text, messages=texts)
        return
    if opts.get('c12'):
        # C12: a non-strict collection merge always runs to the end; strict raises only MosMergeError
        got = run_collection(ns, 'strings', ro_text, texts, strict, tmp, store)
        res.transitions += len(texts)
        res.nontrivial += 1
        res.extra['collection_merges'] += 1
        res.by_outcome['collection:' + str(got['exc']).split(':')[0]] += 1
        if got['exc'] and 'BUILTIN' in str(got['exc']):
            explore.add_simple_finding(res, prop, f"COLLECTION:strict={strict}:{got['exc']}",
                                       f'sequence {list(seq)} strict={strict}: collection merge escaped with {got["exc"]}',
                                       sequence=list(seq), ro=ro_text, messages=texts)
        elif not strict and got['exc']:
            explore.add_simple_finding(res, prop, f"COLLECTION:non-strict-did-not-finish:{got['exc']}",
                                       f'sequence {list(seq)}: non-strict merge raised {got["exc"]}',
                                       sequence=list(seq), ro=ro_text, messages=texts)
        return
    for ctor in (('strings', 'files', 's3') if ro_pos == 'first' else ('strings', 'files')):
        res.transitions += max(1, len(texts))
        res.extra['collections'] += 1
        if ref['failed']:
            res.nontrivial += 1
        got = run_collection(ns, ctor, ro_text, texts, strict, tmp, store)
        cls = f"strict={strict}:failed={len(ref['failed'])}of{len(texts)}"
        res.by_class[cls] += 1
        res.by_outcome[str(got['exc'])] += 1
        bad = None
        if got['exc'] != ref['exc']:
            bad = ('exception', f"merge raised {got['exc']}, the fold {ref['exc']}")
        elif got['text'] != ref['text']:
            bad = ('result-differs', 'str(mc) differs from the sequential fold')
        elif not strict and got['nonstrict'] != len(ref['failed']):
            bad = ('nonstrict-warning-count', f"{got['nonstrict']} MosMergeNonStrictWarning for {len(ref['failed'])} failing messages")
        elif strict and got['nonstrict']:
            bad = ('nonstrict-warning-in-strict-mode', f"{got['nonstrict']} MosMergeNonStrictWarning in strict mode")
        elif Counter(got['warns']) != Counter(ref['warns']):
            bad = ('other-warnings', f"warnings {got['warns']} vs fold {ref['warns']}")
        if bad:
            first_fail = ref['failed'][0] if ref['failed'] else None
            where = 'none' if first_fail is None else ('first' if first_fail == 0 else 'last' if first_fail == len(texts) - 1 else 'mid')
            explore.add_simple_finding(
                res, prop, f"{bad[0]}:strict={strict}:ctor={ctor}:nfail={min(len(ref['failed']), 2)}:firstfail={where}:roCreate={ro_pos}",
                f'sequence {list(seq)} strict={strict} via from_{ctor} (roCreate message ID {ro_pos}): {bad[1]} (failing positions {ref["failed"]})',
                sequence=list(seq), ro=ro_text, messages=texts, got=got, reference=ref)


def run_collection(ns, ctor, ro_text, texts, strict, tmp, store, order=None, allow_incomplete=True):
    """Build a MosCollection over roCreate + messages through one constructor and merge."""
    docs = [ro_text] + list(texts)
    if order is not None:
        docs = [docs[i] for i in order]
    out = {'exc': None, 'text': None, 'nonstrict': 0, 'warns': [], 'reader_ids': None}
    try:
        if ctor == 'strings':
            mc = ns.mc.MosCollection.from_strings(docs, allow_incomplete=allow_incomplete)
        elif ctor == 'files':
            paths = []
            for k, d in enumerate(docs):
                p = os.path.join(tmp, f'f{k:03d}.mos.xml')
                with open(p, 'wb') as f:
                    f.write(coll.to_bytes(d))
                paths.append(p)
            mc = ns.mc.MosCollection.from_files(paths, allow_incomplete=allow_incomplete)
        else:
            bucket = 'bkt'
            store.objects = {}
            keys = []
            for k, d in enumerate(docs):
                # key names sort in the REVERSE of the supply order: ordering by key name instead of by
                # message ID becomes visible
                key = f'pre/{899 - k:03d}-f.mos.xml'
                store.put(bucket, key, d)
                keys.append(key)
            store.put(bucket, 'pre/ignored.txt', 'not a mos file')
            store.pages[bucket] = [keys[:2] + ['pre/ignored.txt'], keys[2:]] if len(keys) > 2 else [keys + ['pre/ignored.txt']]
            mc = ns.mc.MosCollection.from_s3(bucket_name=bucket, prefix='pre/', allow_incomplete=allow_incomplete)
    except ns.exc.MosRoMgrException as e:
        out['exc'] = 'CTOR:' + type(e).__name__
        return out
    except Exception as e:  # noqa
        out['exc'] = 'CTOR:BUILTIN:' + type(e).__name__ + ':' + str(e)[:60]
        return out
    out['reader_ids'] = [mr.message_id for mr in mc.mos_readers]
    out['ro_message_id'] = mc.ro.message_id
    with warnings.catch_warnings(record=True) as w:
        warnings.simplefilter('always')
        try:
            mc.merge(strict=strict)
        except ns.exc.MosMergeError as e:
            out['exc'] = type(e).__name__
        except Exception as e:  # noqa
            out['exc'] = 'BUILTIN:' + type(e).__name__
    out['nonstrict'] = sum(1 for x in w if x.category is ns.exc.MosMergeNonStrictWarning)
    out['warns'] = [x.category.__name__ for x in w if issubclass(x.category, ns.exc.MosRoMgrWarning)
                    and x.category is not ns.exc.MosMergeNonStrictWarning]
    try:
        out['text'] = str(mc)
    except Exception as e:  # noqa
        out['text'] = 'BUILTIN:' + type(e).__name__
    return out


def mixed_messages(per_kind):
    """Concrete messages of all 24 mergeable classes (k per class, resolvable and not) rendered against
    the H-MIXED base running order; used for collection sequences over the full message alphabet."""
    from .. import tree
    from ..harnesses import HMixed
    from ..monitors import _NullRes
    h = HMixed(max_list=1, story_L=1, meta_subsets=1, layouts=('before',))
    base = [t for t in h.initial_states() if tree.RoView(t).story_ids == ['AB', 'A', 'C']][0]
    view = tree.RoView(base)
    taken, msgs = Counter(), []
    for c in h.menu(view, _NullRes()):
        if taken[c['kind']] >= per_kind:
            continue
        taken[c['kind']] += 1
        msgs.append((c['kind'], h.render(c, view)))
    return base, msgs


def mixed_worker(ns, items, res, opts):
    """Sequences over the full message alphabet: MosCollection (strict / non-strict) vs the fold."""
    prop = opts['prop']
    base, msgs = opts['base'], opts['msgs']
    tmp = tempfile.mkdtemp(prefix='mosmc-c09m-')
    store = coll.FakeS3()
    store.install(ns)
    try:
        for seq in items:
            texts = [msgs[i][1].replace('<messageID>2000</messageID>', f'<messageID>{2000 + 10 * k}</messageID>', 1) for k, i in enumerate(seq)]
            kinds = [msgs[i][0] for i in seq]
            for strict in (True, False):
                ref = coll.fold(ns, base, texts, strict)
                got = run_collection(ns, 'strings', base, texts, strict, tmp, store)
                res.transitions += len(texts)
                res.extra['states'] += len(texts) + 1
                res.extra['mixed_collections'] += 1
                if ref['failed']:
                    res.nontrivial += 1
                res.by_outcome['mixed:' + str(got['exc'])] += 1
                res.by_class['mixed:' + '>'.join(kinds)] += 1
                bad = None
                if got['exc'] != ref['exc']:
                    bad = ('exception', f"merge raised {got['exc']}, the fold {ref['exc']}")
                elif got['text'] != ref['text']:
                    bad = ('result-differs', 'str(mc) differs from the sequential fold')
                elif not strict and got['nonstrict'] != len(ref['failed']):
                    bad = ('nonstrict-warning-count', f"{got['nonstrict']} MosMergeNonStrictWarning for {len(ref['failed'])} failing messages")
                elif Counter(got['warns']) != Counter(ref['warns']):
                    bad = ('other-warnings', f"warnings {got['warns']} vs fold {ref['warns']}")
                if bad:
                    explore.add_simple_finding(res, prop, f"MIXED:{bad[0]}:strict={strict}:{kinds[0]}",
                                               f'messages {kinds} strict={strict}: {bad[1]}', ro=base, messages=texts)
    finally:
        shutil.rmtree(tmp, ignore_errors=True)


def model_worker(ns, items, res, opts):
    """Conformance: replay every reachable state of the TLA+ model (tla/CollMerge.tla) against the
    real MosCollection.  A model state (kinds, strict, i, completed, applied, warned, raised) describes
    the merge after the first i-1 messages: the implementation, given exactly those messages, must
    show the same applied set, completed flag, warning count and propagated exception."""
    import warnings as _w
    from .. import gen, tree
    prop = opts['prop']
    g = gen
    ro_text = coll.base_ro()
    for st in items:
        kinds = st['kinds'][:st['i'] - 1]
        texts = []
        for j, k in enumerate(kinds, start=1):
            n = 2000 + 10 * j
            if k == 'ok':
                texts.append(g.msg_story_append([g.story_xml(f'S{j}', 0)], msg_id=n))
            elif k == 'fail':
                texts.append(g.msg_story_replace(gen.UNKNOWN, [g.story_xml(f'X{j}', 0)], msg_id=n))
            else:
                texts.append(g.envelope(f'<roDelete><roID>{g.RO_ID}</roID><marker>{j}</marker></roDelete>', msg_id=n))
        res.transitions += 1
        res.extra['model_states_replayed'] += 1
        res.extra['states'] += 1
        res.by_class['model:strict=%s' % st['strict']] += 1
        obs = {'raised': 'none', 'warned': 0, 'applied': (), 'completed': None}
        try:
            mc = ns.mc.MosCollection.from_strings([ro_text] + texts, allow_incomplete=True)
            with _w.catch_warnings(record=True) as w:
                _w.simplefilter('always')
                try:
                    mc.merge(strict=st['strict'])
                except ns.exc.MosMergeError as e:
                    obs['raised'] = type(e).__name__
            obs['warned'] = sum(1 for x in w if x.category is ns.exc.MosMergeNonStrictWarning)
            v = tree.RoView(str(mc))
            applied = [j for j, k in enumerate(kinds, start=1) if k == 'ok' and f'S{j}' in v.story_ids]
            for c in v.root:
                if c.tag == 'mosromgrmeta':
                    applied += [int(m.text) for m in c.iter('marker')]
            obs['applied'] = tuple(sorted(applied))
            obs['completed'] = bool(mc.completed)
        except Exception as e:  # noqa
            obs['raised'] = 'ESCAPED:' + type(e).__name__
        res.by_outcome['model:' + obs['raised']] += 1
        want = {'raised': st['raised'], 'warned': st['warned'], 'applied': st['applied'], 'completed': st['completed']}
        if st['raised'] != 'none' or st['warned'] or st['completed']:
            res.nontrivial += 1
        if obs != want:
            diff = [k for k in want if want[k] != obs[k]]
            explore.add_simple_finding(res, prop, f"MODEL:strict={st['strict']}:differs-in={'+'.join(diff)}",
                                       f"TLA+ model state kinds={list(kinds)} strict={st['strict']}: model says {want}, implementation shows {obs}",
                                       model_state={k: (list(v) if isinstance(v, tuple) else v) for k, v in st.items()}, ro=ro_text, messages=texts)
        if len(res.samples) < 1 and st['i'] > 3 and st['completed'] and (st['warned'] + opts.get('seed', 0)) % 2 == 1:
            res.samples.append({'model_state': {k: (list(v) if isinstance(v, tuple) else v) for k, v in st.items()}, 'implementation': obs})


def vacuity(tot):
    probs = []
    if not any(k.startswith('strict=False:failed=2') for k in tot.by_class):
        probs.append('no non-strict sequence with two failing messages')
    if 'MosCompletedMergeError' not in tot.by_outcome:
        probs.append('no strict merge stopped by MosCompletedMergeError')
    return probs


def run(tier):
    names = list(coll.pool_messages())
    if tier == 'quick':
        seqs = list(sequences(names[:11], 3)) + [s for s in sequences(names[:9], 4) if len(s) == 4]
    else:
        seqs = list(sequences(names, 4)) + [s for s in sequences(names[:10], 5) if len(s) == 5]
    parts = [{'label': 'sequences', 'worker': worker, 'items': seqs, 'chunk': 40}]
    base, msgs = mixed_messages(1 if tier == 'quick' else 3)
    n = len(msgs)
    mixed_seqs = [(i, j) for i in range(n) for j in range(n) if i != j]
    parts.append({'label': 'sequences-over-all-24-classes', 'worker': mixed_worker, 'items': mixed_seqs, 'chunk': 60,
                  'opts': {'base': base, 'msgs': msgs}})
    # second route: explicit-state model checking of a TLA+ model with TLC + conformance replay of
    # every reachable model state against the implementation
    from .. import tlc
    states, tinfo = tlc.run_collmerge(4 if tier == 'quick' else 6)
    if states is None:
        if 'skipped' in tinfo:
            print(f"C09 note: TLC model part skipped ({tinfo['skipped']}); the direct enumeration still decides the property")
        else:
            print(f"HARNESS-ERROR C09: TLC did not verify the model: {tinfo.get('error', tinfo)}")
            return 3
    else:
        parts.append({'label': 'tla-model-conformance', 'worker': model_worker, 'items': states, 'chunk': 60})
    return runner.enum_check(
        'C09', tier, parts, level='model_checking', rule=RULE, vacuity=vacuity,
        assumptions=['the fold uses the implementation\'s own `+`, so C09 is independent of C01-C06',
                     'the fake S3 implements only documented boto3 behaviour (paginated list_objects, Object.get()["Body"].read())',
                     'collections are built with allow_incomplete=True so that sequences without a roDelete are accepted'],
        extra_cov={'sequences': len(seqs), 'pool': names, 'tla_model': tinfo})
