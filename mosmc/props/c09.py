"""C09 Collection merge equals adding the messages one by one; strict/non-strict hold."""
import os
import shutil
import tempfile
import warnings
import itertools
from collections import Counter

from .. import runner, explore, coll

RULE = ('H-COLL: every sequence (ordered, without repetition) of length <= L over a pool of P concrete messages - mutating, '
        'no-op, warning-only, failing with MosMergeError at list position 1 and at position 2, order-dependent, roDelete '
        '(everything after it fails with MosCompletedMergeError) - hence every subset and placement of failing messages, '
        'x {strict, non-strict} x {from_strings, from_files, from_s3 (fake)}. Oracle (differential): the harness folds '
        '`ro += fresh parse` over the messages in ascending message-ID order; strict: the same exception type propagates '
        'and str(mc) equals the fold stopped there; non-strict: no exception, exactly one MosMergeNonStrictWarning per '
        'failing message, every other mosromgr warning as in the fold, str(mc) equals the fold skipping exactly the '
        'failing messages. state = running order after each fold step; transition = one message of one sequence.')


def sequences(names, L):
    for n in range(0, L + 1):
        yield from itertools.permutations(names, n)


def worker(ns, items, res, opts):
    prop = opts['prop']
    pool = coll.pool_nasty() if opts.get('nasty') else coll.pool_messages()
    ro_text = coll.base_ro()
    tmp = tempfile.mkdtemp(prefix='mosmc-c09-')
    store = coll.FakeS3()
    store.install(ns)
    try:
        for seq in items:
            texts = [pool[name](2000 + 10 * k) for k, name in enumerate(seq)]
            for strict in (True, False):
                problems = []

                def unchanged(k, t, before, after, e):
                    if before != after:
                        problems.append((k, type(e).__name__))
                ref = coll.fold(ns, ro_text, texts, strict, check_unchanged=unchanged)
                res.extra['states'] += len(texts) + 1
                if opts.get('c05'):
                    res.transitions += len(texts)
                    res.nontrivial += len(ref['failed'])
                    res.by_outcome['failing-steps=%d' % len(ref['failed'])] += 1
                    res.extra['raising_steps'] += len(ref['failed'])
                    for k, en in problems:
                        explore.add_simple_finding(res, prop, f'COLLECTION:{seq[k]}:mutated-before-raise:{en}',
                                                   f'sequence {list(seq)} (strict={strict}): message #{k} {seq[k]} raised {en} but changed the running order',
                                                   sequence=list(seq), ro=ro_text, messages=texts)
                    continue
                if opts.get('c12'):
                    # C12: a non-strict collection merge always runs to the end; strict raises only MosMergeError
                    got = run_collection(ns, 'strings', ro_text, texts, strict, tmp, store)
                    res.transitions += len(texts)
                    res.nontrivial += 1
                    res.extra['collection_merges'] += 1
                    res.by_outcome['collection:' + str(got['exc']).split(':')[0]] += 1
                    if got['exc'] and 'BUILTIN' in str(got['exc']):
                        explore.add_simple_finding(res, prop, f"COLLECTION:strict={strict}:{got['exc']}",
                                                   f'sequence {list(seq)} strict={strict}: collection merge escaped with {got["exc"]}',
                                                   sequence=list(seq), ro=ro_text, messages=texts)
                    elif not strict and got['exc']:
                        explore.add_simple_finding(res, prop, f"COLLECTION:non-strict-did-not-finish:{got['exc']}",
                                                   f'sequence {list(seq)}: non-strict merge raised {got["exc"]}',
                                                   sequence=list(seq), ro=ro_text, messages=texts)
                    continue
                for ctor in ('strings', 'files', 's3'):
                    res.transitions += max(1, len(texts))
                    res.extra['collections'] += 1
                    if ref['failed']:
                        res.nontrivial += 1
                    got = run_collection(ns, ctor, ro_text, texts, strict, tmp, store)
                    cls = f"strict={strict}:failed={len(ref['failed'])}of{len(texts)}"
                    res.by_class[cls] += 1
                    res.by_outcome[str(got['exc'])] += 1
                    bad = None
                    if got['exc'] != ref['exc']:
                        bad = ('exception', f"merge raised {got['exc']}, the fold {ref['exc']}")
                    elif got['text'] != ref['text']:
                        bad = ('result-differs', 'str(mc) differs from the sequential fold')
                    elif not strict and got['nonstrict'] != len(ref['failed']):
                        bad = ('nonstrict-warning-count', f"{got['nonstrict']} MosMergeNonStrictWarning for {len(ref['failed'])} failing messages")
                    elif strict and got['nonstrict']:
                        bad = ('nonstrict-warning-in-strict-mode', f"{got['nonstrict']} MosMergeNonStrictWarning in strict mode")
                    elif Counter(got['warns']) != Counter(ref['warns']):
                        bad = ('other-warnings', f"warnings {got['warns']} vs fold {ref['warns']}")
                    if bad:
                        first_fail = ref['failed'][0] if ref['failed'] else None
                        where = 'none' if first_fail is None else ('first' if first_fail == 0 else 'last' if first_fail == len(texts) - 1 else 'mid')
                        explore.add_simple_finding(
                            res, prop, f"{bad[0]}:strict={strict}:ctor={ctor}:nfail={min(len(ref['failed']), 2)}:firstfail={where}",
                            f'sequence {list(seq)} strict={strict} via from_{ctor}: {bad[1]} (failing positions {ref["failed"]})',
                            sequence=list(seq), ro=ro_text, messages=texts, got=got, reference=ref)
            if len(res.samples) < 2 and (len(seq) + opts.get('seed', 0)) % 3 == 0 and len(seq) >= 2:
                res.samples.append({'sequence': list(seq), 'failing_positions_nonstrict': ref['failed']})
    finally:
        shutil.rmtree(tmp, ignore_errors=True)


def run_collection(ns, ctor, ro_text, texts, strict, tmp, store, order=None, allow_incomplete=True):
    """Build a MosCollection over roCreate + messages through one constructor and merge."""
    docs = [ro_text] + list(texts)
    if order is not None:
        docs = [docs[i] for i in order]
    out = {'exc': None, 'text': None, 'nonstrict': 0, 'warns': [], 'reader_ids': None}
    try:
        if ctor == 'strings':
            mc = ns.mc.MosCollection.from_strings(docs, allow_incomplete=allow_incomplete)
        elif ctor == 'files':
            paths = []
            for k, d in enumerate(docs):
                p = os.path.join(tmp, f'f{k:03d}.mos.xml')
                with open(p, 'w', encoding='utf-8') as f:
                    f.write(d)
                paths.append(p)
            mc = ns.mc.MosCollection.from_files(paths, allow_incomplete=allow_incomplete)
        else:
            bucket = 'bkt'
            store.objects = {}
            keys = []
            for k, d in enumerate(docs):
                key = f'pre/f{k:03d}.mos.xml'
                store.put(bucket, key, d)
                keys.append(key)
            store.put(bucket, 'pre/ignored.txt', 'not a mos file')
            store.pages[bucket] = [keys[:2] + ['pre/ignored.txt'], keys[2:]] if len(keys) > 2 else [keys + ['pre/ignored.txt']]
            mc = ns.mc.MosCollection.from_s3(bucket_name=bucket, prefix='pre/', allow_incomplete=allow_incomplete)
    except ns.exc.MosRoMgrException as e:
        out['exc'] = 'CTOR:' + type(e).__name__
        return out
    except Exception as e:  # noqa
        out['exc'] = 'CTOR:BUILTIN:' + type(e).__name__ + ':' + str(e)[:60]
        return out
    out['reader_ids'] = [mr.message_id for mr in mc.mos_readers]
    out['ro_message_id'] = mc.ro.message_id
    with warnings.catch_warnings(record=True) as w:
        warnings.simplefilter('always')
        try:
            mc.merge(strict=strict)
        except ns.exc.MosMergeError as e:
            out['exc'] = type(e).__name__
        except Exception as e:  # noqa
            out['exc'] = 'BUILTIN:' + type(e).__name__
    out['nonstrict'] = sum(1 for x in w if x.category is ns.exc.MosMergeNonStrictWarning)
    out['warns'] = [x.category.__name__ for x in w if issubclass(x.category, ns.exc.MosRoMgrWarning)
                    and x.category is not ns.exc.MosMergeNonStrictWarning]
    try:
        out['text'] = str(mc)
    except Exception as e:  # noqa
        out['text'] = 'BUILTIN:' + type(e).__name__
    return out


def vacuity(tot):
    probs = []
    if not any(k.startswith('strict=False:failed=2') for k in tot.by_class):
        probs.append('no non-strict sequence with two failing messages')
    if 'MosCompletedMergeError' not in tot.by_outcome:
        probs.append('no strict merge stopped by MosCompletedMergeError')
    return probs


def run(tier):
    names = list(coll.pool_messages())
    if tier == 'quick':
        seqs = list(sequences(names[:9], 3)) + [s for s in sequences(names[:7], 4) if len(s) == 4]
    else:
        seqs = list(sequences(names, 4)) + [s for s in sequences(names[:8], 5) if len(s) == 5]
    parts = [{'label': 'sequences', 'worker': worker, 'items': seqs, 'chunk': 40}]
    return runner.enum_check(
        'C09', tier, parts, level='model_checking', rule=RULE, vacuity=vacuity,
        assumptions=['the fold uses the implementation\'s own `+`, so C09 is independent of C01-C06',
                     'the fake S3 implements only documented boto3 behaviour (paginated list_objects, Object.get()["Body"].read())',
                     'collections are built with allow_incomplete=True so that sequences without a roDelete are accepted'],
        extra_cov={'sequences': len(seqs), 'pool': names})
