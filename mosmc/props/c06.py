"""C06 Nothing named by a message is skipped silently."""
from .. import runner
from ..monitors import mon_nothing_skipped
from .common import story_item_parts, ALPHABET

RULE = (ALPHABET + 'Hence every subset of the named elements of an n-element message (n <= L) being unresolvable / '
        'duplicate is enumerated. Monitor: unless MosMergeError is raised, the recorded MosRoMgrWarning multiset must '
        'hold exactly one warning of the documented category per unresolvable element (StoryNotFoundWarning / '
        'ItemNotFoundWarning) and per skipped duplicate (DuplicateStoryWarning); a fully applicable message emits none; '
        'every resolvable listed element is acted upon (deleted / present afterwards / not left in place by a move). '
        'Non-trivial = result differs from the input or exception/warning observed.')


def vacuity(by_kind, by_outcome, extra, by_class):
    probs = []
    for k in ('cases_with_unresolvable_or_duplicate', 'fully_applicable_cases', 'acted_upon_checks'):
        if not extra.get(k):
            probs.append(f'{k} == 0')
    return probs


def run(tier):
    parts = story_item_parts(tier, [mon_nothing_skipped], timing_variants=False)
    return runner.graph_check(
        'C06', tier, parts, rule=RULE, vacuity=vacuity,
        assumptions=['an existing ID listed twice in a delete may produce 0 or 1 warning for the repeat (undefined by MOS)',
                     'for an item message whose story cannot be found exactly one StoryNotFoundWarning (or MosMergeError) is owed; item warnings are optional',
                     'several <element_source> tags (outside the MOS DTD) are not held to this property',
                     'bounds as listed per part'])
