"""C03 A merge changes only what the message names (no collateral edits)."""
from .. import runner, spec
from ..harnesses import HStory, HItem, HMixed
from ..monitors import mon_frame
from .common import live_part, live3_part

RULE = ('Rich running orders (every story/item carries a unique nested subtree with attributes, mixed text and tails, '
        'markup-significant and non-BMP characters; a decoy story repeats the item IDs; two mosExternalMetadata blocks '
        'with different mosSchema; metadata before/between/after the stories) x every message class (24) x every '
        'reference in {k-th existing, UNKNOWN, BLANK, ABSENT} x lists 1..L. One BFS level from every shape (the frame '
        'condition is a per-transition property) plus, in H-MIXED, the states reached at depth 1. Monitor: residual-frame '
        'equality - delete from the before-tree every element the message names (by ID equality; a blank/unknown '
        'reference names nothing) and from the after-tree every element it names or carries; the remainders must be '
        'structurally identical (tags, attributes, text, tails, order; whitespace-only text is formatting); elements that '
        'are only moved must keep identical content. Non-trivial = result differs from input or exception/warning observed.')


def vacuity(by_kind, by_outcome, extra, by_class):
    probs = [f'message class {k} never exercised' for k in spec.ALL_KINDS if not by_kind.get(k)]
    for k in ('frames_with_named_elements', 'frames_with_nothing_named'):
        if not extra.get(k):
            probs.append(f'{k} == 0')
    return probs


def run(tier):
    mon = [mon_frame]
    if tier == 'quick':
        parts = [
            {'label': 'rich-stories', 'harness': HStory(pool=4, cap=3, max_list=2, rich=True, replace_variant=1,
                                                       layouts=('before', 'between', 'after')),
             'monitors': mon, 'opts': {'max_depth': 0}},
            {'label': 'rich-items', 'harness': HItem(pool=4, cap=3, max_list=2, rich=True, patterns=('plain', 'p-between', 'foreign')),
             'monitors': mon, 'opts': {'max_depth': 0}},
            {'label': 'mixed-all-classes', 'harness': HMixed(rich=True), 'monitors': mon, 'opts': {'max_depth': 0}},
        ]
    else:
        parts = [
            {'label': 'rich-stories', 'harness': HStory(pool=5, cap=4, max_list=3, rich=True, replace_variant=1),
             'monitors': mon, 'opts': {'max_depth': 0}},
            {'label': 'rich-items', 'harness': HItem(pool=5, cap=4, max_list=3, rich=True, patterns=('plain', 'p-between', 'foreign')),
             'monitors': mon, 'opts': {'max_depth': 0}},
            {'label': 'mixed-all-classes-depth1', 'harness': HMixed(rich=True, meta_subsets=3, init_shapes='all'), 'monitors': mon,
             'opts': {'max_depth': 1, 'max_states': 8000}},
        ]
    parts.append({'label': 'pretty-printed-running-orders', 'harness': HStory(pool=4, cap=3, max_list=2, rich=True, replace_variant=1, pretty_states=True,
                                                                               pretty_msgs=True, layouts=('between',)),
                  'monitors': mon, 'opts': {'max_depth': 0}})
    parts.append({'label': 'other-envelope', 'harness': HMixed(envelope='trailing', init_shapes=[('A', 'AB'), ('AB', 'A', 'C')], layouts=('before',), max_list=1, story_L=1, meta_subsets=1, rich=True), 'monitors': mon, 'opts': {'max_depth': 0}})
    parts.append(live_part(tier, mon))
    parts.append(live3_part(tier, mon))
    return runner.graph_check(
        'C03', tier, parts, rule=RULE, vacuity=vacuity,
        assumptions=['named/carried sets per message class as in DESIGN Appendix A',
                     'where an inserted element lands relative to unnamed elements is not constrained here beyond the order of the unnamed ones',
                     'bounds as listed per part'])
