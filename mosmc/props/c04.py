"""C04 Stories, items and metadata carried by a message arrive intact."""
from .. import runner
from ..harnesses import HPayload
from ..monitors import mon_payload
from .common import live_part, live3_part

RULE = ('H-PAYLOAD: one step from running orders (0, 1, 3 stories; metadata before/between; plus running orders holding '
        'every subset of the metadata keys) under every payload-carrying class (roStoryAppend/Insert/Replace, '
        'roItemInsert/Replace, roElementAction story/item INSERT/REPLACE, roStorySend, roReplace, roMetadataReplace) x '
        'payload lists 1..L x content kinds {lean, rich (attributes, special characters, paragraphs interleaved with items, '
        'notes), deep (nesting depth 4, mixed text and tails, inline markup)} x {compact, pretty-printed}; roStorySend with '
        'storyBody first/middle/last/only and every body sequence up to length B over {p, empty p, storyItem, foreign}; '
        'roReplace with 0..3 stories x 4 layouts; roMetadataReplace with every non-empty subset of the keys. Oracle: each '
        'carried element, read independently from the message text, is found by ID in str(ro) structurally equal '
        '(whitespace-only text is formatting); also on the second and third message of two- and three-message histories on one live object (first messages: all 24 classes). Non-trivial = result differs from the input or exception/warning observed.')

PAYLOAD_KINDS = ('StoryAppend', 'StoryInsert', 'StoryReplace', 'ItemInsert', 'ItemReplace', 'EAStoryInsert', 'EAStoryReplace',
                 'EAItemInsert', 'EAItemReplace', 'StorySend', 'RunningOrderReplace', 'MetaDataReplace')


def vacuity(by_kind, by_outcome, extra, by_class):
    probs = [f'message class {k} never exercised' for k in PAYLOAD_KINDS if not by_kind.get(k)]
    if not extra.get('carried_elements_compared'):
        probs.append('no carried element compared')
    return probs


def run(tier):
    if tier == 'quick':
        h = HPayload(max_list=2, body_len=3, meta_keys=5)
    else:
        h = HPayload(max_list=3, body_len=4, meta_keys=7)
    parts = [{'label': 'payloads', 'harness': h, 'monitors': [mon_payload], 'opts': {'max_depth': 0}}]
    # the same oracle on the second / third message of histories executed on one live object (a payload that lands in a
    # detached or stale part of the object never shows in str(ro))
    parts.append(live_part(tier, [mon_payload], PAYLOAD_KINDS))
    parts.append(live3_part(tier, [mon_payload], PAYLOAD_KINDS))
    return runner.graph_check(
        'C04', tier, parts, level='exploration', rule=RULE, vacuity=vacuity,
        assumptions=['payload IDs are unique within a message and do not collide with other stories (precondition of unique IDs)',
                     'U+000D, DTDs, comments and processing instructions are outside the alphabet (DESIGN 2.1)'])
