"""C08 Classification is total, and decided only by the message element."""
import os
import shutil
import tempfile
import warnings
import itertools
import xml.etree.ElementTree as ET

from .. import runner, gen, explore
from ..gen import BLANK, ABSENT

# tag -> class, from the property statement / the library documentation
TAG_CLASS = {
    'roCreate': 'RunningOrder', 'roStorySend': 'StorySend', 'roStoryAppend': 'StoryAppend', 'roStoryDelete': 'StoryDelete',
    'roStoryInsert': 'StoryInsert', 'roStoryMove': 'StoryMove', 'roStoryReplace': 'StoryReplace', 'roItemDelete': 'ItemDelete',
    'roItemInsert': 'ItemInsert', 'roItemMoveMultiple': 'ItemMoveMultiple', 'roItemReplace': 'ItemReplace',
    'roReplace': 'RunningOrderReplace', 'roMetadataReplace': 'MetaDataReplace', 'roReadyToAir': 'ReadyToAir',
    'roDelete': 'RunningOrderEnd', 'roElementAction': None,
}
# (operation, target has itemID, source has itemID) -> class: the 10 documented shapes
EA_CLASS = {
    ('REPLACE', False, False): 'EAStoryReplace', ('REPLACE', True, False): 'EAItemReplace',
    ('DELETE', False, False): 'EAStoryDelete', ('DELETE', False, True): 'EAItemDelete',
    ('INSERT', False, False): 'EAStoryInsert', ('INSERT', True, False): 'EAItemInsert',
    ('SWAP', False, False): 'EAStorySwap', ('SWAP', False, True): 'EAItemSwap',
    ('MOVE', False, False): 'EAStoryMove', ('MOVE', True, True): 'EAItemMove',
}
ALL_CLASSES = {c for c in TAG_CLASS.values() if c} | set(EA_CLASS.values())

RULE = ('H-DOC: 16 message tags x {empty element, text-only, with children} x envelope variants (with/without '
        'mosID/ncsID/messageID, message element first/last/among unknown siblings, compact/pretty); roElementAction: '
        'operation in {5 valid, unknown, lower-case, missing} x element_target in {absent, empty, storyID, blank storyID, '
        'storyID+itemID, storyID+blank itemID} x element_source in {absent, empty, storyIDs, itemIDs, story, item, story with '
        'nested itemID}; non-MOS roots, a message tag as root, nested too deep, wrong case; every proper prefix of each '
        'canonical document; each canonical document with non-ASCII text stored as bytes / file in ISO-8859-1, UTF-16, windows-1252, UTF-8 and UTF-8 with BOM; (thorough) every single-character deletion. Each document x warning filter {process default, '
        'always, error} x source {str, bytes, file}. Oracle: an independent reference classifier over the parsed document '
        '(tag table and (operation, target-has-itemID, source-has-itemID) table from the property); every other well-formed '
        'document -> UnknownMosFileType; not well-formed -> MosInvalidXML; identical verdict across filters and sources. '
        'Non-trivial = anything but the canonical 25 documents.')


# ------------------------------------------------------------------ reference classifier
def ref_classify(text):
    """-> set of acceptable outcomes (class names / 'UnknownMosFileType' / 'MosInvalidXML')."""
    try:
        root = ET.fromstring(text)
    except ET.ParseError:
        return {'MosInvalidXML'}
    tags = [c.tag for c in root if c.tag in TAG_CLASS]
    if not tags:
        return {'UnknownMosFileType'}
    out = set()
    for t in dict.fromkeys(tags):
        if t != 'roElementAction':
            out.add(TAG_CLASS[t])
            continue
        ea = root.find('roElementAction')
        op = ea.attrib.get('operation')
        tgt = ea.find('element_target')
        srcs = ea.findall('element_source')
        if not srcs:
            out.add('UnknownMosFileType')
            continue

        def has_item(elems):
            """-> set of acceptable answers to 'carries item IDs': a non-blank itemID says yes, none says
            no, only blank itemID tags - or several element_source tags that disagree - leave it open."""
            answers = set()
            for e in elems:
                ids = e.findall('itemID')
                if any((i.text or '').strip() for i in ids):
                    answers.add(True)
                elif ids:
                    answers |= {True, False}
                else:
                    answers.add(False)
            return answers or {False}
        # in element_target a blank <itemID/> is a reference ("end of the story", C02): it counts as an item ID
        t_ans = {tgt is not None and tgt.find('itemID') is not None}
        s_ans = has_item(srcs[:1]) | (has_item(srcs) if len(srcs) > 1 else set())
        for t in t_ans:
            for s_ in s_ans:
                out.add(EA_CLASS.get((op, t, s_), 'UnknownMosFileType'))
    # several different message elements in one document: the property does not order them
    return out


# ------------------------------------------------------------------ documents
def canonical_docs():
    g = gen
    st = lambda i: g.story_xml(i, 0)                                    # noqa
    it = lambda i: g.item_xml(i, 0, 'S')                                # noqa
    sid = lambda i: g.id_tag('storyID', i)                              # noqa
    iid = lambda i: g.id_tag('itemID', i)                               # noqa
    docs = {
        'RunningOrder': g.ro_text([st('A'), st('AB')]),
        'StorySend': g.msg_story_send('A'),
        'StoryAppend': g.msg_story_append([st('C')]),
        'StoryDelete': g.msg_story_delete(['A']),
        'StoryInsert': g.msg_story_insert('A', [st('C')]),
        'StoryMove': g.msg_story_move('A', 'AB'),
        'StoryReplace': g.msg_story_replace('A', [st('C')]),
        'ItemDelete': g.msg_item_delete('A', ['a']),
        'ItemInsert': g.msg_item_insert('A', 'a', [it('c')]),
        'ItemMoveMultiple': g.msg_item_move_multiple('A', ['a'], 'c'),
        'ItemReplace': g.msg_item_replace('A', 'a', [it('c')]),
        'RunningOrderReplace': g.msg_ro_replace([st('A')]),
        'MetaDataReplace': g.msg_metadata_replace(['<roSlug>x</roSlug>']),
        'ReadyToAir': g.msg_ready_to_air(),
        'RunningOrderEnd': g.msg_ro_delete(),
        'EAStoryReplace': g.msg_ea('REPLACE', 'A', sources=[st('C')]),
        'EAItemReplace': g.msg_ea('REPLACE', 'A', 'a', sources=[it('c')]),
        'EAStoryDelete': g.msg_ea('DELETE', sources=[sid('A')], target_present=False),
        'EAItemDelete': g.msg_ea('DELETE', 'A', sources=[iid('a')]),
        'EAStoryInsert': g.msg_ea('INSERT', 'A', sources=[st('C')]),
        'EAItemInsert': g.msg_ea('INSERT', 'A', 'a', sources=[it('c')]),
        'EAStorySwap': g.msg_ea('SWAP', sources=[sid('A'), sid('AB')], target_present=False),
        'EAItemSwap': g.msg_ea('SWAP', 'A', sources=[iid('a'), iid('c')]),
        'EAStoryMove': g.msg_ea('MOVE', 'A', sources=[sid('AB')]),
        'EAItemMove': g.msg_ea('MOVE', 'A', 'a', sources=[iid('c')]),
    }
    return docs


def envelope_variants(elem_xml):
    """The same message element in different envelopes."""
    junk1 = '<foo>1</foo>'
    junk2 = '<bar a="b"><baz/></bar>'
    heads = ['<mosID>m</mosID><ncsID>n</ncsID><messageID>7</messageID>', '<messageID>7</messageID>', '']
    out = []
    for h in heads:
        out.append(f'<mos>{h}{elem_xml}</mos>')
        out.append(f'<mos>{elem_xml}{h}</mos>')
        out.append(f'<mos>{h}{junk1}{elem_xml}{junk2}</mos>')
        out.append(f'<mos>{junk2}{h}{elem_xml}</mos>')
    out.append(f'<mos a="1">\n  {elem_xml}\n</mos>')
    out.append(f'<?xml version="1.0" encoding="UTF-8"?><mos>{heads[0]}{elem_xml}</mos>')
    out.append(f'<mos><!-- c -->{elem_xml}<?pi x?></mos>')
    return out


def ea_docs():
    ops = ['REPLACE', 'DELETE', 'INSERT', 'SWAP', 'MOVE', 'COPY', 'move', None]
    targets = {
        'absent': None,
        'empty': '<element_target/>',
        'story': '<element_target><storyID>A</storyID></element_target>',
        'blank-story': '<element_target><storyID/></element_target>',
        'story+item': '<element_target><storyID>A</storyID><itemID>a</itemID></element_target>',
        'story+blank-item': '<element_target><storyID>A</storyID><itemID/></element_target>',
    }
    sources = {
        'absent': '',
        'empty': '<element_source/>',
        'storyIDs': '<element_source><storyID>A</storyID><storyID>AB</storyID></element_source>',
        'itemIDs': '<element_source><itemID>a</itemID><itemID>c</itemID></element_source>',
        'blank-itemID': '<element_source><itemID/></element_source>',
        'story': f'<element_source>{gen.story_xml("C", 0)}</element_source>',
        'item': f'<element_source>{gen.item_xml("c", 0, "S")}</element_source>',
        'story-with-item': f'<element_source>{gen.story_xml("C", 0, body=(("i", "a"),))}</element_source>',
        'two-sources': '<element_source><storyID>A</storyID></element_source><element_source><itemID>a</itemID></element_source>',
    }
    for op in ops:
        for tn, t in targets.items():
            for sn, s in sources.items():
                opx = '' if op is None else f' operation="{op}"'
                body = f'<roElementAction{opx}><roID>RO1</roID>{t or ""}{s}</roElementAction>'
                yield f'ea:{op}:{tn}:{sn}', gen.envelope(body)
                if tn == 'story' and sn in ('storyIDs', 'itemIDs'):
                    yield f'ea-src-first:{op}:{tn}:{sn}', gen.envelope(f'<roElementAction{opx}>{s}{t}<roID>RO1</roID></roElementAction>')
    yield 'ea:empty-element', gen.envelope('<roElementAction operation="MOVE"/>')
    yield 'ea:text-only', gen.envelope('<roElementAction operation="MOVE">x</roElementAction>')


def documents(tier):
    """-> list of (label, text, trivial?)."""
    out = []
    canon = canonical_docs()
    for cls, text in canon.items():
        out.append((f'canonical:{cls}', text, True))
        out.append((f'pretty:{cls}', gen.prettify(text), False))
        root = ET.fromstring(text)
        elem = [c for c in root if c.tag in TAG_CLASS][0]
        exml = ET.tostring(elem, encoding='unicode')
        for k, v in enumerate(envelope_variants(exml)):
            out.append((f'envelope{k}:{cls}', v, False))
    for tag in TAG_CLASS:
        attr = ' operation="MOVE"' if tag == 'roElementAction' else ''
        out.append((f'empty-element:{tag}', f'<mos><messageID>1</messageID><{tag}{attr}/></mos>', False))
        out.append((f'text-only:{tag}', f'<mos><{tag}{attr}>some text</{tag}></mos>', False))
        out.append((f'only-roID:{tag}', f'<mos><{tag}{attr}><roID>RO1</roID></{tag}></mos>', False))
        out.append((f'as-root:{tag}', f'<{tag}{attr}><roID>RO1</roID></{tag}>', False))
        out.append((f'nested-deep:{tag}', f'<mos><wrapper><{tag}{attr}><roID>RO1</roID></{tag}></wrapper></mos>', False))
        out.append((f'wrong-case:{tag}', f'<mos><{tag.lower()}{attr}><roID>RO1</roID></{tag.lower()}></mos>', False))
        out.append((f'suffix:{tag}', f'<mos><{tag}X{attr}><roID>RO1</roID></{tag}X></mos>', False))
        out.append((f'inside-other-message:{tag}', f'<mos><roUnknown><{tag}{attr}><roID>RO1</roID></{tag}></roUnknown></mos>', False))
    for label, text in ea_docs():
        out.append((label, text, False))
    for label, text in [
        ('non-mos:html', '<html><body>hello</body></html>'),
        ('non-mos:empty-root', '<mos/>'),
        ('non-mos:heartbeat', '<mos><mosID>m</mosID><heartbeat><time>now</time></heartbeat></mos>'),
        ('non-mos:roAck', '<mos><roAck><roID>RO1</roID><roStatus>OK</roStatus></roAck></mos>'),
        ('not-xml:empty', ''),
        ('not-xml:text', 'hello world'),
        ('not-xml:unclosed', '<mos><roCreate>'),
        ('not-xml:two-roots', '<mos/><mos/>'),
        ('not-xml:bad-entity', '<mos><roCreate>&nbsp;</roCreate></mos>'),
        ('not-xml:mismatch', '<mos><roCreate></roDelete></mos>'),
        ('two-messages:same', '<mos><roDelete><roID>1</roID></roDelete><roDelete><roID>2</roID></roDelete></mos>'),
        ('two-messages:different', '<mos><roStoryMove><roID>1</roID></roStoryMove><roCreate><roID>1</roID></roCreate></mos>'),
    ]:
        out.append((label, text, False))
    # characters around the document: XML white space before / after the root is well-formed (not before an XML
    # declaration); what Python's str.strip() also removes (NBSP, NEL, LS, FS...) is not XML white space, so the
    # document is malformed.  The reference parser decides; the verdict must not depend on the source.
    decl = '<?xml version="1.0" encoding="UTF-8"?>'
    for cls, text in canon.items():
        for k, (pre, post) in enumerate([('\n', ''), ('', '\n \t\r\n'), (' \n', '\n'), ('\u00a0', ''), ('', '\u00a0'), ('\u2028', ''),
                                         ('', '\u0085'), ('\u3000', '\u3000'), ('\ufeff', ''), ('', '\x1c')]):
            out.append((f'affix{k}:{cls}', pre + text + post, False))
            out.append((f'affix{k}-decl:{cls}', pre + decl + text + post, False))
    # every proper prefix of each canonical document
    for cls, text in canon.items():
        step = 1 if tier == 'thorough' or len(text) < 400 else 3
        for k in range(0, len(text), step):
            out.append((f'prefix:{cls}:{k}', text[:k], False))
    if tier == 'thorough':
        for cls, text in canon.items():
            for k in range(len(text)):
                out.append((f'deletion:{cls}:{k}', text[:k] + text[k + 1:], False))
    else:
        for cls, text in canon.items():
            for k in range(0, min(len(text), 240), 2):
                out.append((f'deletion:{cls}:{k}', text[:k] + text[k + 1:], False))
    return out


# ------------------------------------------------------------------ worker
def _classify(ns, source, text, path, wfilter):
    with warnings.catch_warnings(record=True):
        if wfilter is not None:
            warnings.simplefilter(wfilter)
        try:
            if source == 'str':
                o = ns.mt.MosFile.from_string(text)
            elif source == 'bytes':
                o = ns.mt.MosFile.from_string(text.encode('utf-8'))
            else:
                with open(path, 'w', encoding='utf-8') as f:
                    f.write(text)
                o = ns.mt.MosFile.from_file(path)
            return type(o).__name__
        except ns.exc.MosRoMgrException as e:
            return type(e).__name__
        except Exception as e:  # noqa
            return 'BUILTIN:' + type(e).__name__ + ':' + str(e)[:80]


def worker(ns, items, res, opts):
    prop = opts['prop']
    tmp = tempfile.mkdtemp(prefix='mosmc-c08-')
    try:
        path = os.path.join(tmp, 'doc.mos.xml')
        for label, text, trivial in items:
            allowed = ref_classify(text)
            family = label.split(':')[0]
            verdicts = {}
            for wf in (None, 'always', 'error'):
                for source in ('str', 'bytes', 'file'):
                    if source == 'file' and text == '':
                        pass
                    v = _classify(ns, source, text, path, wf)
                    verdicts[(wf or 'default', source)] = v
                    res.transitions += 1
            vals = set(verdicts.values())
            res.by_outcome[next(iter(vals)).split(':')[0] if len(vals) == 1 else 'INCONSISTENT'] += 1
            res.by_class[family] += 1
            if not trivial:
                res.nontrivial += 1
            res.extra['documents'] += 1
            if len(res.samples) < 3 and (hash(label) + opts.get('seed', 0)) % 97 == 0:
                res.samples.append({'document': label, 'text': text[:300], 'verdict': sorted(vals), 'reference': sorted(allowed)})
            bad = [(k, v) for k, v in verdicts.items() if v not in allowed]
            if bad:
                (wf, source), v = bad[0]
                kind = v.split(':')[1] if v.startswith('BUILTIN:') else v
                sig = f'{family}:{":".join(label.split(":")[1:3]) if family in ("ea", "ea-src-first", "empty-element", "text-only") else ""}:got={kind}:filter={wf if len({x for _, x in bad}) and len(bad) < 9 else "any"}'
                explore.add_simple_finding(res, prop, sig,
                                           f'document {label!r}: classified as {v} (filter={wf}, source={source}); reference allows {sorted(allowed)}',
                                           document=text, label=label, verdicts={f'{a}/{b}': c for (a, b), c in verdicts.items()},
                                           reference=sorted(allowed))
            elif len(vals) > 1 and len(allowed) == 1:
                explore.add_simple_finding(res, prop, f'{family}::inconsistent-across-configurations',
                                           f'document {label!r}: verdict depends on filter/source: {verdicts}',
                                           document=text, label=label)
    finally:
        shutil.rmtree(tmp, ignore_errors=True)


def sibling_pairs():
    """Documents holding two different message elements, in both sibling orders (and with unknown
    siblings around them): the property does not say which element decides, but the decision must not
    depend on the order of the siblings."""
    elems = {}
    for cls, text in canonical_docs().items():
        root = ET.fromstring(text)
        e = [c for c in root if c.tag in TAG_CLASS][0]
        elems.setdefault(e.tag, ET.tostring(e, encoding='unicode'))
    elems['roElementAction'] = ET.tostring([c for c in ET.fromstring(canonical_docs()['EAStoryMove']) if c.tag == 'roElementAction'][0], encoding='unicode')
    tags = list(elems)
    head = '<mosID>m</mosID><messageID>5</messageID>'
    for i, a in enumerate(tags):
        for b in tags[i + 1:]:
            yield (f'{a}+{b}', f'<mos>{head}{elems[a]}{elems[b]}</mos>', f'<mos>{head}{elems[b]}{elems[a]}</mos>')
            yield (f'{a}+junk+{b}', f'<mos>{elems[a]}<foo/>{elems[b]}{head}</mos>', f'<mos>{elems[b]}<foo/>{head}{elems[a]}</mos>')


def pair_worker(ns, items, res, opts):
    prop = opts['prop']
    for label, t1, t2 in items:
        for wf in (None, 'error'):
            v1 = _classify(ns, 'str', t1, None, wf)
            v2 = _classify(ns, 'str', t2, None, wf)
            res.transitions += 2
            res.nontrivial += 2
            res.by_outcome[v1.split(':')[0]] += 1
            res.by_class['sibling-order'] += 1
            res.extra['sibling_order_pairs'] += 1
            ok = ref_classify(t1)
            if v1 != v2:
                explore.add_simple_finding(res, prop, 'sibling-order::verdict-depends-on-order',
                                           f'two message elements {label}: classified {v1} in one sibling order and {v2} in the other',
                                           document=t1, other_order=t2)
            elif v1 not in ok:
                explore.add_simple_finding(res, prop, f'sibling-order::got={v1.split(":")[1] if v1.startswith("BUILTIN") else v1}',
                                           f'two message elements {label}: classified {v1}, reference allows {sorted(ok)}', document=t1)
            elif wf is None and '+junk+' not in label:
                # the verdict is a function of the document: it must not depend on what the process classified before
                a, b = label.split('+')
                for tag in (b, a, b):
                    single = f'<mos><messageID>6</messageID><{tag}' + (' operation="MOVE"' if tag == 'roElementAction' else '') + f'><roID>RO1</roID></{tag}></mos>'
                    _classify(ns, 'str', single, None, wf)
                    v3 = _classify(ns, 'str', t1, None, wf)
                    res.transitions += 2
                    res.extra['reclassified_after_another_document'] += 1
                    if v3 != v1:
                        explore.add_simple_finding(res, prop, 'history::verdict-depends-on-earlier-classifications',
                                                   f'two message elements {label}: classified {v1}, and {v3} after a {tag} document was classified in the same process',
                                                   document=t1, classified_in_between=single)
                        break


def encoded_docs():
    """Canonical documents with non-ASCII text, stored as bytes in a declared encoding."""
    for cls, text in canonical_docs().items():
        t = text.replace('<mosID>m.os</mosID>', '<mosID>caf\u00e9 \u00a35</mosID>', 1)
        for enc in ('ISO-8859-1', 'UTF-16', 'UTF-8', 'windows-1252'):
            yield (cls, enc, (f'<?xml version="1.0" encoding="{enc}"?>' + t).encode(enc))
        yield (cls, 'utf-8-bom', b'\xef\xbb\xbf' + t.encode('utf-8'))
        # well-formed documents whose byte form ends / starts with bytes that bytes.strip() would remove
        d16 = '<?xml version="1.0" encoding="UTF-16"?>\n' + t + '\n'
        yield (cls, 'utf-16-be+newline', b'\xfe\xff' + d16.encode('utf-16-be'))
        yield (cls, 'utf-16-le+newline', b'\xff\xfe' + d16.encode('utf-16-le'))
        yield (cls, 'utf-16-be-tab', b'\xfe\xff' + (d16 + '\t').encode('utf-16-be'))
        yield (cls, 'utf-8+newlines', ('<?xml version="1.0" encoding="UTF-8"?>\n' + t + '\n\n').encode('utf-8'))


def bytes_worker(ns, items, res, opts):
    prop = opts['prop']
    tmp = tempfile.mkdtemp(prefix='mosmc-c08b-')
    try:
        path = os.path.join(tmp, 'doc.mos.xml')
        for cls, enc, data in items:
            verdicts = {}
            for wf in (None, 'error'):
                for source in ('bytes', 'file'):
                    with warnings.catch_warnings(record=True):
                        if wf:
                            warnings.simplefilter(wf)
                        try:
                            if source == 'bytes':
                                o = ns.mt.MosFile.from_string(data)
                            else:
                                with open(path, 'wb') as f:
                                    f.write(data)
                                o = ns.mt.MosFile.from_file(path)
                            v = type(o).__name__
                        except ns.exc.MosRoMgrException as e:
                            v = type(e).__name__
                        except Exception as e:  # noqa
                            v = 'BUILTIN:' + type(e).__name__
                    verdicts[(wf or 'default', source)] = v
                    res.transitions += 1
            res.nontrivial += 1
            res.by_class['encoded:' + enc] += 1
            vals = set(verdicts.values())
            res.by_outcome[next(iter(vals)) if len(vals) == 1 else 'INCONSISTENT'] += 1
            if vals != {cls}:
                (wf, source), v = next((k, x) for k, x in verdicts.items() if x != cls)
                explore.add_simple_finding(res, prop, f'encoded:{enc}:{source}:got={v.split(":")[-1]}',
                                           f'{cls} stored as {enc} with non-ASCII text: from {source} (filter {wf}) gives {v}', cls=cls, encoding=enc)
    finally:
        shutil.rmtree(tmp, ignore_errors=True)


def vacuity(tot):
    probs = []
    seen = set(tot.by_outcome)
    for c in ALL_CLASSES | {'UnknownMosFileType', 'MosInvalidXML'}:
        if c not in seen:
            probs.append(f'outcome {c} never observed')
    return probs


def run(tier):
    docs = documents(tier)
    parts = [{'label': 'documents', 'worker': worker, 'items': docs, 'chunk': 100},
             {'label': 'documents-in-declared-encodings', 'worker': bytes_worker, 'items': list(encoded_docs()), 'chunk': 40},
             {'label': 'sibling-order-pairs', 'worker': pair_worker, 'items': list(sibling_pairs()), 'chunk': 40}]
    return runner.enum_check(
        'C08', tier, parts, rule=RULE, vacuity=vacuity,
        assumptions=['a document holding several different message elements may be classified as any of them',
                     'the reference classifier looks only at direct children of the root, like the property says',
                     '"process default" warning filter = the filters the check process starts with (untouched)'],
        extra_cov={'documents': len(docs), 'configurations_per_document': 9})
