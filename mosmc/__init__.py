"""mosmc - bounded exhaustive exploration of bbc/mosromgr against list-based references.

See /verif/DESIGN.md.  Everything here runs with /venv/bin/python (stdlib only)
and imports mosromgr from $MOSMC_REPO (default /repo) on every run.
"""
