"""./check --replay <file>: re-execute a recorded violation on the real code, without the explorer."""
import json
import sys
import warnings

from . import target, tree


def main(path):
    doc = json.load(open(path, encoding='utf-8'))
    ns = target.load()
    print(f"property {doc.get('property')}  signature {doc.get('sig')}")
    print(f"recorded: {doc.get('detail')}")
    if doc.get('before') and doc.get('msg'):
        ro_text, msg = doc['before'], doc['msg']
        hist = doc.get('history_messages') or []
        if hist:
            ro = ns.mt.MosFile.from_string(doc['history_initial_state'])
            with warnings.catch_warnings():
                warnings.simplefilter('ignore')
                for m in hist:
                    ro += ns.mt.MosFile.from_string(m)
            same = str(ro) == ro_text
            print(f'history of {len(hist)} message(s) from the initial roCreate reproduces the source state: {same}')
            if not same:
                print('REPLAY-ERROR: divergence while replaying the history prefix')
                return 3
        obs, _, _ = target.step(ns, ro_text, msg)
        obs2, _, _ = target.step(ns, ro_text, msg)
        if obs.as_dict() != obs2.as_dict():
            print('REPLAY-ERROR: two executions of the same step differ (nondeterminism)')
            return 3
        bv = tree.RoView(ro_text)
        print('story IDs before:', bv.story_ids)
        print('message        :', msg)
        print('exception      :', obs.exc, '-', obs.exc_msg)
        print('warnings       :', list(obs.warns))
        if obs.after:
            try:
                print('story IDs after :', tree.RoView(obs.after).story_ids)
            except Exception as e:  # noqa
                print('after state unreadable:', e)
            print('document changed:', obs.after != ro_text)
        rec = doc.get('obs') or {}
        same = (rec.get('exc'), rec.get('after'), list(rec.get('warns') or [])) == (obs.exc, obs.after, list(obs.warns))
        print('reproduces the recorded observation:', same)
        print('\n# ready-to-paste test\n'
              'def test_replay():\n'
              '    from mosromgr.mostypes import MosFile\n'
              f'    ro = MosFile.from_string({ro_text!r})\n'
              f'    msg = MosFile.from_string({msg!r})\n'
              '    ro += msg\n'
              '    print(ro)\n')
        return 0 if same else 3
    for k in ('document', 'message', 'sequence', 'argv', 'documents', 'ids', 'keys'):
        if k in doc:
            print(f'{k}: {doc[k]!r}'[:4000])
    if 'document' in doc:
        try:
            o = ns.mt.MosFile.from_string(doc['document'])
            print('now classifies as', type(o).__name__)
        except Exception as e:  # noqa
            print('now raises', type(e).__name__, e)
    return 0


if __name__ == '__main__':
    sys.exit(main(sys.argv[1]))
