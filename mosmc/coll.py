"""H-COLL helpers: fake S3 (only what boto3 documents for list_objects pagination and
Object.get()['Body'].read()), message pools, the reference fold."""
import io
import warnings

from . import gen
from .gen import BLANK, ABSENT, UNKNOWN


LATIN1_DECL = '<?xml version="1.0" encoding="ISO-8859-1"?>'


def to_bytes(text):
    """Bytes a document is stored as (file / S3 object): its declared encoding, UTF-8 by default."""
    return text.encode('latin-1') if text.startswith(LATIN1_DECL) else text.encode('utf-8')


# ------------------------------------------------------------------ fake S3
class _Body:
    def __init__(self, data):
        self._data = data

    def read(self):
        return self._data


class _Object:
    def __init__(self, store, bucket, key):
        self.store, self.bucket, self.key = store, bucket, key

    def get(self):
        self.store.gets.append((self.bucket, self.key))
        return {'Body': _Body(self.store.objects[(self.bucket, self.key)])}


class _ObjectSummary:
    def __init__(self, store, bucket, key):
        self.store, self.bucket_name, self.key = store, bucket, key

    def get(self):
        return _Object(self.store, self.bucket_name, self.key).get()


class _ObjectCollection:
    def __init__(self, store, bucket):
        self.store, self.bucket = store, bucket

    def _keys(self, prefix=''):
        pages = self.store.pages.get(self.bucket)
        if pages is None:
            pages = [sorted(k for (b, k) in self.store.objects if b == self.bucket)]
        return [k for page in pages for k in page if k.startswith(prefix)]

    def filter(self, Prefix='', **kw):   # noqa: N803
        self.store.lists.append((self.bucket, Prefix))
        return [_ObjectSummary(self.store, self.bucket, k) for k in self._keys(Prefix)]

    def all(self):
        return self.filter()


class _Bucket:
    def __init__(self, store, name):
        self.name = name
        self.objects = _ObjectCollection(store, name)

    def Object(self, key):   # noqa: N802
        return _Object(self.objects.store, self.name, key)


class _Resource:
    def __init__(self, store):
        self.store = store

    def Object(self, bucket, key):   # noqa: N802 (boto3 name)
        return _Object(self.store, bucket, key)

    def Bucket(self, name):   # noqa: N802
        return _Bucket(self.store, name)


class _Paginator:
    def __init__(self, store):
        self.store = store

    def paginate(self, Bucket, Prefix='', **kw):   # noqa: N803 (boto3 names)
        self.store.lists.append((Bucket, Prefix))
        pages = self.store.pages.get(Bucket)
        if pages is None:
            keys = sorted(k for (b, k) in self.store.objects if b == Bucket)
            pages = [keys]
        out = []
        for page in pages:
            ks = [k for k in page if k.startswith(Prefix)]
            if ks:
                out.append({'Contents': [{'Key': k, 'Size': 1} for k in ks], 'IsTruncated': True})
        if not out:
            # an empty listing is one page without 'Contents'
            return iter([{'IsTruncated': False}])
        out[-1]['IsTruncated'] = False
        return iter(out)


class _Client:
    def __init__(self, store):
        self.store = store

    def get_paginator(self, name):
        # both listing calls page through 'Contents' in the same way
        if name not in ('list_objects', 'list_objects_v2'):
            raise NotImplementedError(f'fake S3: paginator {name!r}')
        return _Paginator(self.store)

    def get_object(self, Bucket, Key, **kw):   # noqa: N803
        return _Object(self.store, Bucket, Key).get()


class FakeS3:
    """In-memory bucket store; install() puts fakes into the two lazily built slots of
    mosromgr.utils.s3.s3, so no call can reach real boto3."""

    def __init__(self):
        self.objects = {}     # (bucket, key) -> bytes
        self.pages = {}       # bucket -> list of pages (lists of keys) in listing order
        self.gets = []
        self.lists = []

    def put(self, bucket, key, text):
        self.objects[(bucket, key)] = to_bytes(text) if isinstance(text, str) else text

    def install(self, ns):
        """Put the fakes wherever the library may reach S3 from: the lazily built slots of utils.s3.s3
        (if they exist) and the boto3 factories as seen from mosromgr.utils.s3."""
        store = self

        class _Boto3:
            @staticmethod
            def client(name, *a, **kw):
                return _Client(store)

            @staticmethod
            def resource(name, *a, **kw):
                return _Resource(store)
        ns.s3mod.boto3 = _Boto3
        handle = getattr(ns.s3mod, 's3', None)
        if handle is not None:
            for slot, fake in (('_client', _Client(self)), ('_resource', _Resource(self))):
                if hasattr(handle, slot):
                    setattr(handle, slot, fake)


# ------------------------------------------------------------------ message pool for sequences
def base_ro(msg_id=1000):
    st = [gen.story_xml('A', 0, body=(('p', 'plain'), ('i', 'a'), ('i', 'c'))), gen.story_xml('AB', 0, body=(('i', 'a'),)),
          gen.story_xml('C', 0)]
    return gen.ro_text(st, 'before', gen.meta_elems(2), msg_id=msg_id)


def pool_messages():
    """name -> function(msg_id) -> text.  ok / no-op / warning-only / failing (at list position 1
    and 2) / order-dependent / roDelete."""
    g = gen
    st = lambda i: g.story_xml(i, 0, body=(('p', 'plain'), ('i', 'e')))       # noqa
    return {
        'append-E': lambda n: g.msg_story_append([st('E')], msg_id=n),
        'move-A-end': lambda n: g.msg_story_move('A', BLANK, msg_id=n),
        'roReplace': lambda n: g.msg_ro_replace([g.story_xml('A', 1, body=(('p', 'plain'), ('i', 'a'), ('i', 'c'))), st('G'), g.story_xml('C', 1)],
                                               'after', g.meta_elems(1, variant=1), msg_id=n),
        # a document with a non-UTF-8 encoding declaration and non-ASCII text: as a str its characters are what
        # they are; as a file / S3 object it is stored in the declared encoding (see to_bytes)
        'append-declared-latin1': lambda n: LATIN1_DECL + g.msg_story_append([g.story_xml('D', 0)], msg_id=n).replace(
            'D slug v0', 'D caf\u00e9 \u00a35 slug'),
        'ready': lambda n: g.msg_ready_to_air(msg_id=n),
        'delete-unknown(warn)': lambda n: g.msg_story_delete([UNKNOWN], msg_id=n),
        'eamove-A,unknown(fail@2)': lambda n: g.msg_ea('MOVE', 'C', sources=[g.id_tag('storyID', 'A'), g.id_tag('storyID', UNKNOWN)], msg_id=n),
        'replace-unknown(fail@1)': lambda n: g.msg_story_replace(UNKNOWN, [st('F')], msg_id=n),
        'roDelete': lambda n: g.msg_ro_delete(msg_id=n),
        'iteminsert-in-E(order-dependent)': lambda n: g.msg_item_insert('E', BLANK, [g.item_xml('f', 0, 'E')], msg_id=n),
        'delete-A': lambda n: g.msg_story_delete(['A'], msg_id=n),
        'itemmove-c-before-a-in-A': lambda n: g.msg_item_move_multiple('A', ['c'], 'a', msg_id=n),
        'swap-A-C': lambda n: g.msg_ea('SWAP', sources=[g.id_tag('storyID', 'A'), g.id_tag('storyID', 'C')], target_present=False, msg_id=n),
        'send-AB': lambda n: g.msg_story_send('AB', msg_id=n),
        'metadata': lambda n: g.msg_metadata_replace(['<roSlug>new slug</roSlug>'], msg_id=n),
    }


# ------------------------------------------------------------------ reference fold
def fold(ns, ro_text, msg_texts, strict, check_unchanged=None):
    """ro = roCreate; for m in order: ro += fresh parse(m).  Returns dict(result text, exception,
    failed indexes, other mosromgr warnings, n_nonstrict)."""
    try:
        ro = ns.mt.MosFile.from_string(ro_text)
    except Exception as e:  # noqa
        return {'text': None, 'exc': 'PARSE:' + type(e).__name__, 'failed': [], 'warns': []}
    failed = []
    other = []
    exc = None
    for k, t in enumerate(msg_texts):
        try:
            m = ns.mt.MosFile.from_string(t)
        except Exception as e:  # noqa
            return {'text': str(ro), 'exc': f'PARSE[{k}]:' + type(e).__name__, 'failed': failed, 'warns': other}
        before = str(ro) if check_unchanged is not None else None
        with warnings.catch_warnings(record=True) as w:
            warnings.simplefilter('always')
            try:
                ro = ro + m
            except ns.exc.MosMergeError as e:
                failed.append(k)
                if check_unchanged is not None:
                    check_unchanged(k, t, before, str(ro), e)
                if strict:
                    exc = type(e).__name__
            except Exception as e:  # noqa
                exc = 'BUILTIN:' + type(e).__name__
        other += [x.category.__name__ for x in w if issubclass(x.category, ns.exc.MosRoMgrWarning)]
        if exc:
            break
    return {'text': str(ro), 'exc': exc, 'failed': failed, 'warns': other}


def pool_nasty():
    """Schema-shaped but self-referential / blank / repeated / unresolvable messages (C12)."""
    g = gen
    sid = lambda i: g.id_tag('storyID', i)        # noqa
    iid = lambda i: g.id_tag('itemID', i)         # noqa
    return {
        'swap-A-A': lambda n: g.msg_ea('SWAP', sources=[sid('A'), sid('A')], target_present=False, msg_id=n),
        'itemswap-a-a': lambda n: g.msg_ea('SWAP', 'A', sources=[iid('a'), iid('a')], msg_id=n),
        'move-A-before-A': lambda n: g.msg_story_move('A', 'A', msg_id=n),
        'eamove-A,A-before-C': lambda n: g.msg_ea('MOVE', 'C', sources=[sid('A'), sid('A')], msg_id=n),
        'eamove-C-before-C': lambda n: g.msg_ea('MOVE', 'C', sources=[sid('C')], msg_id=n),
        'itemmove-a,a': lambda n: g.msg_item_move_multiple('A', ['a', 'a'], 'c', msg_id=n),
        'itemmove-target-in-sources': lambda n: g.msg_item_move_multiple('A', ['c', 'a'], 'c', msg_id=n),
        'delete-blank': lambda n: g.msg_story_delete([BLANK, 'A', BLANK], msg_id=n),
        'replace-blank': lambda n: g.msg_story_replace(BLANK, [g.story_xml('F', 0)], msg_id=n),
        'send-blank': lambda n: g.msg_story_send(BLANK, msg_id=n),
        'iteminsert-unknown-story': lambda n: g.msg_item_insert(UNKNOWN, BLANK, [g.item_xml('f', 0, 'x')], msg_id=n),
        'append-untimed': lambda n: g.msg_story_append([g.story_xml('E', 0, timing='nometa')], msg_id=n),
        'insert-before-AB': lambda n: g.msg_story_insert('AB', [g.story_xml('F', 0, timing='none'), g.story_xml('A', 0)], msg_id=n),
        'roDelete': lambda n: g.msg_ro_delete(msg_id=n),
    }
