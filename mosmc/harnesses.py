"""Shared drivers (DESIGN 2.4).  A harness closes the system: initial states, the finite
menu of cases enabled in a state, the renderer and the successor caps."""
import itertools

from . import gen, spec
from .gen import BLANK, ABSENT, UNKNOWN


def _lists(cands, lo, hi, repeats=False):
    """All lists of length lo..hi over cands (ordered); with or without repeated elements."""
    for n in range(lo, hi + 1):
        if repeats:
            yield from itertools.product(cands, repeat=n)
        else:
            yield from itertools.permutations(cands, n)


class HStory:
    """Story-level harness: running orders over a pool of story IDs x roCreate layouts;
    menu = every story-level message over the alphabet."""
    name = 'H-STORY'

    def __init__(self, pool=5, cap=4, max_list=2, layouts=gen.LAYOUTS, timing='dur',
                 kinds=spec.STORY_KINDS, init_max=None, rich=False, nmeta=3, packings=('one', 'per'),
                 pretty_msgs=False, replace_variant=0, no_expand=('StorySend',), bodies=None, explicit=None,
                 edstart=True, send_bodies=None, pretty_states=False):
        self.pool = list(pool) if isinstance(pool, (list, tuple)) else gen.STORY_POOL[:pool]
        self.cap = cap
        self.max_list = max_list
        self.layouts = layouts
        self.timing = timing
        self.kinds = kinds
        self.init_max = cap if init_max is None else init_max
        self.rich = rich
        self.nmeta = nmeta
        self.packings = packings
        self.pretty_msgs = pretty_msgs
        # variant of replacement payloads: 0 = same content as the initial stories, so the state
        # space is (ID sequence x metadata interleaving) only; content arrival is C04's business
        self.replace_variant = replace_variant
        self.no_expand = no_expand
        self.bodies = bodies          # per-ID story bodies (C17)
        self.explicit = explicit      # per-ID explicit StoryStarted/StoryEnded ('s', 'e', 'se')
        self.edstart = edstart
        self.send_bodies = send_bodies
        self.pretty_states = pretty_states   # initial running orders pretty-printed (whitespace text/tails everywhere)

    # -- content
    def story(self, sid, variant=0):
        body = (('p', 'plain'), ('i', 'a'), ('i', 'c')) if self.rich else (('p', 'plain'),)
        if self.bodies is not None:
            body = self.bodies.get(sid, body)
        timing = self.timing if isinstance(self.timing, str) else self.timing.get(sid, 'dur')
        started = ended = None
        if self.explicit is not None:
            x = self.explicit.get(sid, '')
            started = T_STARTED.get(sid) if 's' in x else None
            ended = T_ENDED.get(sid) if 'e' in x else None
        return gen.story_xml(sid, variant, body=body, timing=timing, rich=self.rich, started=started, ended=ended)

    def initial_states(self):
        out = []
        for layout in self.layouts:
            meta = gen.meta_elems(self.nmeta, edstart=self.edstart)
            for n in range(0, self.init_max + 1):
                for ids in itertools.permutations(self.pool, n):
                    out.append(gen.ro_text([self.story(i) for i in ids], layout, meta))
        if self.pretty_states:
            out = [gen.prettify(t) for t in out]
        return out

    # -- menu
    def menu(self, view, res):
        ids = view.story_ids
        n = len(ids)
        L = self.max_list
        new = [p for p in self.pool if p not in ids]
        extra_unres = new[-1:] if getattr(self, 'absent_refs', False) else []     # a pool ID that is not in the running order: unresolvable too
        refs_t = ids + [UNKNOWN, BLANK, ABSENT]
        refs_s = ids + [UNKNOWN, BLANK] + extra_unres
        K = self.kinds
        if 'StoryAppend' in K:
            for pl in _lists(new[:3], 1, L):
                if n + len(pl) > self.cap:
                    res.disabled['cap:StoryAppend'] += 1
                    continue
                yield {'kind': 'StoryAppend', 'payload': tuple((i, 0) for i in pl)}
        for kind in ('StoryInsert', 'EAStoryInsert'):
            if kind not in K:
                continue
            cands = new[:2] + ids
            for tgt in refs_t:
                for pl in _lists(cands, 1, L):
                    if n + sum(1 for i in pl if i not in ids) > self.cap:
                        res.disabled['cap:' + kind] += 1
                        continue
                    yield {'kind': kind, 'tgt': tgt, 'payload': tuple((i, 0) for i in pl)}
        for kind in ('StoryReplace', 'EAStoryReplace'):
            if kind not in K:
                continue
            for tgt in refs_t:
                # an unresolvable target must not be replaced by anything - not even by a payload whose
                # ID happens to exist already (no duplicate can arise if the merge is refused)
                cands = new[:2] + ([tgt] if tgt in ids else ids[:2])
                for pl in _lists(cands, 0, L):
                    if n - 1 + len(pl) > self.cap:
                        res.disabled['cap:' + kind] += 1
                        continue
                    yield {'kind': kind, 'tgt': tgt, 'payload': tuple((i, self.replace_variant) for i in pl)}
        if 'StoryMove' in K:
            for src in refs_s:
                for tgt in refs_t:
                    yield {'kind': 'StoryMove', 'src': src, 'tgt': tgt}
            yield {'kind': 'StoryMove', 'src': ABSENT, 'tgt': ABSENT}
        if 'EAStoryMove' in K:
            for tgt in refs_t:
                for srcs in _lists(refs_s, 1, L, repeats=True):
                    for packing in self.packings:
                        if packing == 'per' and len(srcs) < 2:
                            continue
                        yield {'kind': 'EAStoryMove', 'tgt': tgt, 'srcs': tuple(srcs), 'packing': packing}
        for kind in ('StoryDelete', 'EAStoryDelete'):
            if kind not in K:
                continue
            for srcs in _lists(refs_s, 1, L, repeats=True):
                for packing in (self.packings if kind.startswith('EA') else ('one',)):
                    if packing == 'per' and len(srcs) < 2:
                        continue
                    yield {'kind': kind, 'srcs': tuple(srcs), 'packing': packing}
        if 'EAStorySwap' in K:
            for a in refs_s:
                for b in refs_s:
                    yield {'kind': 'EAStorySwap', 'srcs': (a, b)}
        # story DELETE / SWAP do not need an element_target, but may legally carry one (MOS: "an empty
        # storyID tag, or the element_target tag itself is absent"); a filled-in one must be ignored
        for etgt in ([BLANK] + ids[:1] + ids[-1:]):
            if 'EAStoryDelete' in K and n:
                for src in ids[:2]:
                    if src != etgt:
                        yield {'kind': 'EAStoryDelete', 'srcs': (src,), 'packing': 'one', 'etgt': etgt}
            if 'EAStorySwap' in K and n >= 2 and etgt == BLANK:
                yield {'kind': 'EAStorySwap', 'srcs': (ids[0], ids[-1]), 'etgt': etgt}
        if 'StorySend' in K:
            for sid in refs_s:
                if self.send_bodies and sid in ids:
                    for b in self.send_bodies:
                        yield {'kind': 'StorySend', 'sid': sid, 'body': b, 'timing': 'both'}
                else:
                    yield {'kind': 'StorySend', 'sid': sid}

    # -- renderer
    def render(self, case, view):
        text = render_case(case, self.story, None)
        return gen.prettify(text) if self.pretty_msgs else text

    def accept(self, ctx):
        if ctx.case['kind'] in self.no_expand:
            return False
        av = ctx.after_view
        if av is None:
            return False
        ids = av.story_ids
        # preconditions of the properties: unique, non-blank story IDs; cap on size
        if len(ids) > self.cap or len(set(ids)) != len(ids) or any(not i for i in ids):
            return False
        return True


def render_case(case, story_fn, item_fn):
    """Abstract case -> message XML."""
    k = case['kind']
    g = gen
    if k == 'StoryAppend':
        return g.msg_story_append([story_fn(i, v) for i, v in case['payload']])
    if k == 'StoryInsert':
        return g.msg_story_insert(case['tgt'], [story_fn(i, v) for i, v in case['payload']])
    if k == 'EAStoryInsert':
        return g.msg_ea('INSERT', target_story=case['tgt'], sources=[story_fn(i, v) for i, v in case['payload']],
                        target_present=case['tgt'] != ABSENT or case.get('empty_target', False))
    if k == 'StoryReplace':
        return g.msg_story_replace(case['tgt'], [story_fn(i, v) for i, v in case['payload']])
    if k == 'EAStoryReplace':
        return g.msg_ea('REPLACE', target_story=case['tgt'], sources=[story_fn(i, v) for i, v in case['payload']])
    if k == 'StoryMove':
        return g.msg_story_move(case['src'], case['tgt'])
    if k == 'EAStoryMove':
        return g.msg_ea('MOVE', target_story=case['tgt'], sources=[g.id_tag('storyID', s) for s in case['srcs']],
                        packing=case.get('packing', 'one'), target_present=case['tgt'] != ABSENT)
    if k == 'StoryDelete':
        return g.msg_story_delete(case['srcs'])
    if k == 'EAStoryDelete':
        etgt = case.get('etgt', ABSENT)
        return g.msg_ea('DELETE', sources=[g.id_tag('storyID', s) for s in case['srcs']], target_story=etgt,
                        packing=case.get('packing', 'one'), target_present=etgt != ABSENT or case.get('empty_target', False))
    if k == 'EAStorySwap':
        etgt = case.get('etgt', BLANK if case.get('empty_target') else ABSENT)
        return g.msg_ea('SWAP', sources=[g.id_tag('storyID', s) for s in case['srcs']],
                        target_present=etgt != ABSENT, target_story=etgt)
    if k == 'StorySend':
        return g.msg_story_send(case['sid'], variant=1, body=case.get('body', (('p', 'plain'), ('i', 'a'))),
                                timing=case.get('timing', 'dur'), rich=case.get('rich', False),
                                body_pos=case.get('body_pos', 'last'))
    # ---- item level
    if k == 'ItemInsert':
        return g.msg_item_insert(case['story'], case['tgt'], [item_fn(i, v) for i, v in case['payload']])
    if k == 'EAItemInsert':
        return g.msg_ea('INSERT', target_story=case['story'], target_item=case['tgt'],
                        sources=[item_fn(i, v) for i, v in case['payload']])
    if k == 'ItemReplace':
        return g.msg_item_replace(case['story'], case['tgt'], [item_fn(i, v) for i, v in case['payload']])
    if k == 'EAItemReplace':
        return g.msg_ea('REPLACE', target_story=case['story'], target_item=case['tgt'],
                        sources=[item_fn(i, v) for i, v in case['payload']])
    if k == 'ItemDelete':
        return g.msg_item_delete(case['story'], case['srcs'])
    if k == 'EAItemDelete':
        return g.msg_ea('DELETE', target_story=case['story'], sources=[g.id_tag('itemID', s) for s in case['srcs']],
                        packing=case.get('packing', 'one'))
    if k == 'ItemMoveMultiple':
        return g.msg_item_move_multiple(case['story'], case['srcs'], case['tgt'])
    if k == 'EAItemMove':
        return g.msg_ea('MOVE', target_story=case['story'], target_item=case['tgt'],
                        sources=[g.id_tag('itemID', s) for s in case['srcs']], packing=case.get('packing', 'one'))
    if k == 'EAItemSwap':
        return g.msg_ea('SWAP', target_story=case['story'], sources=[g.id_tag('itemID', s) for s in case['srcs']])
    # ---- other
    if k == 'RunningOrderEnd':
        return g.msg_ro_delete()
    if k == 'ReadyToAir':
        return g.msg_ready_to_air()
    raise ValueError(k)


class HItem:
    """Item-level harness: story S1 (addressed) holds every sequence of item IDs over a pool, with
    paragraphs / foreign elements interleaved; decoy story S2 holds the same item IDs, so a lookup
    that leaves the addressed story is visible.  Menu = every item-level message."""
    name = 'H-ITEM'
    S1, S2 = 'S1', 'S2'

    def __init__(self, pool=5, cap=4, max_list=2, patterns=('plain', 'p-between', 'foreign'),
                 positions=('first', 'second'), kinds=spec.ITEM_KINDS, init_max=None, rich=False,
                 packings=('one', 'per'), layout='before', pretty_msgs=False, timing='dur', pretty_states=False):
        self.pool = list(pool) if isinstance(pool, (list, tuple)) else gen.ITEM_POOL[:pool]
        self.cap = cap
        self.max_list = max_list
        self.patterns = patterns
        self.positions = positions
        self.kinds = kinds
        self.init_max = cap if init_max is None else init_max
        self.rich = rich
        self.packings = packings
        self.layout = layout
        self.pretty_msgs = pretty_msgs
        self.timing = timing
        self.pretty_states = pretty_states

    def item(self, iid, variant=0):
        return gen.item_xml(iid, variant, owner=self.S1, rich=self.rich)

    def body(self, ids, pattern):
        toks = []
        if pattern == 'foreign':
            toks.append(('x', 1))
        for k, i in enumerate(ids):
            if pattern == 'p-between':
                toks.append(('p', 'plain'))
            toks.append(('i', i))
        if pattern == 'p-between':
            toks.append(('p', 'plain'))
        if pattern == 'foreign':
            toks.append(('x', 2))
        return tuple(toks)

    def initial_states(self):
        out = []
        decoy_ids = [self.pool[2 % len(self.pool)], self.pool[0], self.pool[1 % len(self.pool)]]
        decoy = gen.story_xml(self.S2, 0, body=tuple(('i', i) for i in decoy_ids), timing=self.timing, rich=self.rich)
        other = gen.story_xml('S3', 0, body=(('p', 'plain'),), timing=self.timing)
        for pos in self.positions:
            for pattern in self.patterns:
                for n in range(0, self.init_max + 1):
                    for ids in itertools.permutations(self.pool, n):
                        s1 = gen.story_xml(self.S1, 0, body=self.body(ids, pattern), timing=self.timing, rich=self.rich)
                        stories = [s1, decoy, other] if pos == 'first' else [decoy, s1, other] if pos == 'second' else [other, decoy, s1]
                        out.append(gen.ro_text(stories, self.layout, gen.meta_elems(2)))
        if self.pretty_states:
            out = [gen.prettify(t) for t in out]
        return out

    def menu(self, view, res):
        s1 = view.story(self.S1)
        if s1 is None:
            return
        ids = s1.item_ids
        n = len(ids)
        L = self.max_list
        new = [p for p in self.pool if p not in ids]
        K = self.kinds
        extra_unres = new[-1:] if getattr(self, 'absent_refs', False) else []
        refs_t = ids + [UNKNOWN, BLANK]
        refs_s = ids + [UNKNOWN, BLANK] + extra_unres
        for story in (self.S1, UNKNOWN, BLANK, ABSENT):
            full = story == self.S1
            # with an unresolvable story reference a reduced argument menu suffices
            r_t = refs_t if full else (ids[:1] + [UNKNOWN, BLANK])
            r_s = refs_s if full else (ids[:1] + [UNKNOWN])
            LL = L if full else 1
            for kind in ('ItemInsert', 'EAItemInsert'):
                if kind not in K:
                    continue
                tg = r_t + ([ABSENT] if kind == 'ItemInsert' else [])
                for tgt in tg:
                    for pl in _lists(new[:2], 1, LL):
                        if full and n + len(pl) > self.cap:
                            res.disabled['cap:' + kind] += 1
                            continue
                        yield {'kind': kind, 'story': story, 'tgt': tgt, 'payload': tuple((i, 0) for i in pl)}
            for kind in ('ItemReplace', 'EAItemReplace'):
                if kind not in K:
                    continue
                tg = r_t + ([ABSENT] if kind == 'ItemReplace' else [])
                for tgt in tg:
                    cands = new[:2] + ([tgt] if tgt in ids else ids[:2])
                    for pl in _lists(cands, 0 if full else 1, LL):
                        if full and n - 1 + len(pl) > self.cap:
                            res.disabled['cap:' + kind] += 1
                            continue
                        yield {'kind': kind, 'story': story, 'tgt': tgt, 'payload': tuple((i, 0) for i in pl)}
            for kind in ('ItemDelete', 'EAItemDelete'):
                if kind not in K:
                    continue
                for srcs in _lists(r_s, 1, LL, repeats=True):
                    for packing in (self.packings if kind.startswith('EA') else ('one',)):
                        if packing == 'per' and len(srcs) < 2:
                            continue
                        yield {'kind': kind, 'story': story, 'srcs': tuple(srcs), 'packing': packing}
            for kind in ('ItemMoveMultiple', 'EAItemMove'):
                if kind not in K:
                    continue
                for tgt in r_t:
                    for srcs in _lists(r_s, 1, LL, repeats=True):
                        for packing in (self.packings if kind.startswith('EA') else ('one',)):
                            if packing == 'per' and len(srcs) < 2:
                                continue
                            yield {'kind': kind, 'story': story, 'tgt': tgt, 'srcs': tuple(srcs), 'packing': packing}
            if 'EAItemSwap' in K:
                for a in r_s:
                    for b in r_s:
                        yield {'kind': 'EAItemSwap', 'story': story, 'srcs': (a, b)}

    def render(self, case, view):
        text = render_case(case, None, self.item)
        return gen.prettify(text) if self.pretty_msgs else text

    def accept(self, ctx):
        av = ctx.after_view
        if av is None:
            return False
        s1 = av.story(self.S1)
        if s1 is None:
            return False
        ids = s1.item_ids
        if len(ids) > self.cap or len(set(ids)) != len(ids) or any(not i for i in ids):
            return False
        return True


# ---------------------------------------------------------------- H-MIXED
META_KEYS = ('roSlug', 'mem1', 'roEdStart', 'mem2', 'roChannel', 'roTrigger', 'mem3')
META_KEYS_MSG = META_KEYS + ('mem0', 'memB')     # carried by messages only


def meta_elem_xml(key, variant=1):
    """Running-order metadata element carried by roMetadataReplace."""
    if key == 'roSlug':
        return f'<roSlug>RO slug v{variant} {gen.escape(gen.SPECIAL)}</roSlug>'
    if key == 'roEdStart':
        return '<roEdStart>2021-02-03T04:05:06</roEdStart>'
    if key == 'roChannel':
        return f'<roChannel>chan{variant}</roChannel>'
    if key == 'roTrigger':
        return f'<roTrigger how="new{variant}">MANUAL</roTrigger>'
    if key == 'mem0':       # mosExternalMetadata without any mosSchema
        return f'<mosExternalMetadata><mosPayload><roNote v="{variant}">no schema</roNote></mosPayload></mosExternalMetadata>'
    if key == 'memB':       # blank mosSchema
        return f'<mosExternalMetadata><mosSchema/><mosPayload><roNote v="{variant}">blank schema</roNote></mosPayload></mosExternalMetadata>'
    if key.startswith('mem'):
        n = key[3:]
        return gen.mem_xml(f'ro.schema.{n}', f'<roNote v="{variant}" k={gen.quoteattr(gen.SPECIAL)}>replaced {n}<deep><x/>t</deep></roNote>')
    raise ValueError(key)


def meta_key_of(elem):
    """(tag, schema) key under which roMetadataReplace matches a roCreate child."""
    if elem.tag == 'mosExternalMetadata':
        s = elem.find('mosSchema')
        return (elem.tag, s.text if s is not None else None)
    return (elem.tag, None)


def meta_key_tuple(key):
    if key in ('mem0', 'memB'):
        return ('mosExternalMetadata', None)
    if key.startswith('mem'):
        return ('mosExternalMetadata', f'ro.schema.{key[3:]}')
    return (key, None)


def pad_carried_ids(text):
    """The same message with the storyID / itemID text of every CARRIED story and item surrounded by white space (a
    sender that puts text on its own line).  References (targets, listed IDs) are left as they are."""
    import xml.etree.ElementTree as ET
    root = ET.fromstring(text)
    n = 0
    for el in root.iter():
        if el.tag in ('story', 'item', 'roStorySend'):
            for c in el:
                if c.tag in ('storyID', 'itemID') and c.text and c.text.strip() == c.text:
                    c.text = '\n      ' + c.text + '\n    '
                    n += 1
    return ET.tostring(root, encoding='unicode') if n else text


class HMixed:
    """Small running orders (mixed timing metadata, paragraphs, items repeated across stories)
    under all 24 mergeable message classes."""
    name = 'H-MIXED'

    PROFILES = {
        'A': ('dur', (('p', 'plain'), ('i', 'a'), ('x', 1), ('p', 'round'), ('i', 'ab'))),
        'AB': ('both', (('i', 'a'),)),
        'C': ('none', (('p', 'empty'), ('p', 'unicode'))),
        'D': ('nometa', (('i', 'c'), ('p', 'padded-plain'))),
        'E': ('text', (('p', 'plain'),)),
    }

    def __init__(self, pool=4, cap=3, ipool=3, icap=3, max_list=2, init_shapes='std', kinds=spec.ALL_KINDS,
                 rich=False, layouts=('before', 'between'), replace_variant=1, packings=('one',),
                 meta_subsets=2, uniform_timing=None, story_L=None, nmeta=4, envelope='std', pad_ids=False):
        self.pad_ids = pad_ids
        self.pool = gen.STORY_POOL[:pool]
        self.cap = cap
        self.ipool = gen.ITEM_POOL[:ipool]
        self.icap = icap
        self.max_list = max_list
        self.kinds = kinds
        self.rich = rich
        self.layouts = layouts
        self.replace_variant = replace_variant
        self.packings = packings
        self.meta_subsets = meta_subsets
        self.init_shapes = init_shapes
        self.uniform_timing = uniform_timing
        self.nmeta = nmeta
        self.envelope = envelope
        self._hs = HStory(pool=pool, cap=cap, max_list=story_L or max_list, kinds=kinds, packings=packings,
                          replace_variant=replace_variant)
        self._hs.story = self.story

    def story(self, sid, variant=0):
        timing, body = self.PROFILES.get(sid, ('dur', (('p', 'plain'),)))
        if self.uniform_timing:
            timing = self.uniform_timing
        return gen.story_xml(sid, variant, body=body, timing=timing, rich=self.rich)

    def item(self, iid, variant=0):
        return gen.item_xml(iid, variant, owner='mix', rich=self.rich)

    def initial_states(self):
        out = []
        if self.init_shapes == 'std':
            shapes = [(), ('A',), ('A', 'AB'), ('AB', 'A', 'C'), ('D', 'A'), ('C', 'D', 'AB')]
        elif self.init_shapes == 'all':
            shapes = [ids for n in range(0, self.cap + 1) for ids in itertools.permutations(self.pool, n)]
        else:
            shapes = self.init_shapes
        for layout in self.layouts:
            for ids in shapes:
                ids = [i for i in ids if i in self.pool][:self.cap]
                out.append(gen.ro_text([self.story(i) for i in ids], layout, gen.meta_elems(self.nmeta), envelope_variant=self.envelope))
        return out

    def menu(self, view, res):
        K = self.kinds
        yield from self._hs.menu(view, res)
        # ---- item level: every story of the state can be addressed
        L = self.max_list
        stories = view.stories
        addr = [s.id for s in stories] + [UNKNOWN, BLANK]
        for sref in addr:
            sv = view.story(sref) if sref not in (UNKNOWN, BLANK) else None
            ids = sv.item_ids if sv is not None else []
            full = sv is not None
            n = len(ids)
            new = [p for p in self.ipool if p not in ids]
            r_t = (ids + [UNKNOWN, BLANK]) if full else [UNKNOWN, BLANK]
            r_s = (ids + [UNKNOWN, BLANK]) if full else [UNKNOWN]
            LL = L if full else 1
            for kind in ('ItemInsert', 'EAItemInsert'):
                if kind in K:
                    for tgt in r_t:
                        for pl in _lists(new[:2], 1, LL):
                            if full and n + len(pl) > self.icap:
                                res.disabled['cap:' + kind] += 1
                                continue
                            yield {'kind': kind, 'story': sref, 'tgt': tgt, 'payload': tuple((i, 0) for i in pl)}
            for kind in ('ItemReplace', 'EAItemReplace'):
                if kind in K:
                    for tgt in r_t + [ABSENT]:
                        if tgt == ABSENT and kind == 'EAItemReplace':
                            continue    # without an itemID in the target this is a story REPLACE
                        cands = new[:1] + ([tgt] if tgt in ids else ids[:1])
                        for pl in _lists(cands, 1, LL):
                            if full and n - 1 + len(pl) > self.icap:
                                res.disabled['cap:' + kind] += 1
                                continue
                            yield {'kind': kind, 'story': sref, 'tgt': tgt, 'payload': tuple((i, self.replace_variant) for i in pl)}
            for kind in ('ItemDelete', 'EAItemDelete'):
                if kind in K:
                    for srcs in _lists(r_s, 1, LL, repeats=True):
                        yield {'kind': kind, 'story': sref, 'srcs': tuple(srcs), 'packing': 'one'}
            for kind in ('ItemMoveMultiple', 'EAItemMove'):
                if kind in K:
                    for tgt in r_t:
                        for srcs in _lists(r_s, 1, LL, repeats=True):
                            yield {'kind': kind, 'story': sref, 'tgt': tgt, 'srcs': tuple(srcs), 'packing': 'one'}
            if 'EAItemSwap' in K:
                for a in r_s:
                    for b in r_s:
                        yield {'kind': 'EAItemSwap', 'story': sref, 'srcs': (a, b)}
        # ---- running-order level
        if 'MetaDataReplace' in K:
            for n in range(1, self.meta_subsets + 1):
                for keys in itertools.combinations(META_KEYS_MSG, n):
                    yield {'kind': 'MetaDataReplace', 'elems': keys}
        if 'RunningOrderReplace' in K:
            # (the replacement with stories and items first: it is the one picked when only k cases per class are taken)
            for ids, layout in ((('AB', 'A'), 'between'), (('A', 'E'), 'before'), (('E',), 'after'), ((), 'before')):
                ids = tuple(i for i in ids if i in self.pool or i == 'E')[:self.cap]
                yield {'kind': 'RunningOrderReplace', 'stories': ids, 'layout': layout}
        if 'RunningOrderEnd' in K:
            yield {'kind': 'RunningOrderEnd'}
        if 'ReadyToAir' in K:
            yield {'kind': 'ReadyToAir'}

    def render(self, case, view):
        text = self._render(case, view)
        return pad_carried_ids(text) if self.pad_ids else text

    def _render(self, case, view):
        k = case['kind']
        if k == 'MetaDataReplace':
            return gen.msg_metadata_replace([meta_elem_xml(key) for key in case['elems']])
        if k == 'RunningOrderReplace':
            return gen.msg_ro_replace([self.story(i, self.replace_variant) for i in case['stories']], case['layout'],
                                      gen.meta_elems(2, variant=1))
        return render_case(case, self.story, self.item)

    def accept(self, ctx):
        av = ctx.after_view
        if av is None or av.base is None:
            return False
        ids = av.story_ids
        if len(ids) > self.cap or len(set(ids)) != len(ids) or any(not i for i in ids):
            return False
        for s in av.stories:
            ii = s.item_ids
            if len(ii) > self.icap or len(set(ii)) != len(ii) or any(not i for i in ii):
                return False
        return True


# ---------------------------------------------------------------- H-PAYLOAD (C04)
class HPayload:
    """One step from a few running orders under every payload-carrying message, with the payload
    content alphabet (attributes, nesting, mixed text and tails, special characters, paragraphs
    interleaved with items, storyBody anywhere among the roStorySend children)."""
    name = 'H-PAYLOAD'
    PKINDS = ('lean', 'rich', 'deep')

    def __init__(self, max_list=2, body_len=3, meta_keys=5, pretty=(False, True), ro_meta_subsets=True):
        self.max_list = max_list
        self.body_len = body_len
        self.meta_keys = META_KEYS[:meta_keys]
        self.pretty = pretty
        self.ro_meta_subsets = ro_meta_subsets

    def pstory(self, sid, variant, pkind):
        if pkind == 'lean':
            return gen.story_xml(sid, variant, body=(('p', 'plain'),), timing='dur')
        if pkind == 'rich':
            return gen.story_xml(sid, variant, rich=True, timing='both',
                                 body=(('p', 'unicode'), ('i', 'a', variant), ('p', 'empty'), ('x', 3), ('i', 'c', variant, ('slug', 'objID', 'note')), ('p', 'round')))
        if pkind == 'deep':
            deep = ('<mosExternalMetadata z="1"><mosSchema>deep</mosSchema><mosPayload><l1 a="1">t1<l2 b="&amp;2">t2<l3 c="3">'
                    f'{gen.escape(gen.SPECIAL)}<l4/>tail4</l3>tail3</l2>tail2</l1></mosPayload></mosExternalMetadata>')
            return (f'<story k="v" z={gen.quoteattr(gen.SPECIAL)}>{gen.id_tag("storyID", sid)}<storySlug>deep {variant}</storySlug>{deep}'
                    f'<p>before <b>inline</b> after</p><item><itemID>a</itemID><itemSlug/></item></story>')
        raise ValueError(pkind)

    def pitem(self, iid, variant, pkind):
        if pkind == 'lean':
            return gen.item_xml(iid, variant, owner='pl')
        if pkind == 'rich':
            return gen.item_xml(iid, variant, owner='pl', rich=True, fields=('slug', 'objID', 'mosID', 'objType', 'note'))
        if pkind == 'deep':
            return (f'<item n="1" q={gen.quoteattr(gen.SPECIAL)}>lead{gen.id_tag("itemID", iid)}t0<itemSlug>deep {variant}</itemSlug>'
                    f'<l1 a="1">t1<l2>t2<l3 c="3">{gen.escape(gen.SPECIAL)}</l3>tail3</l2>tail2</l1>tail1</item>')
        raise ValueError(pkind)

    def base_story(self, sid):
        body = {'A': (('p', 'plain'), ('i', 'a'), ('p', 'round'), ('i', 'ab')), 'AB': (('i', 'a'),), 'C': (('p', 'empty'),)}[sid]
        return gen.story_xml(sid, 0, body=body, timing='dur', rich=True)

    def initial_states(self):
        out = []
        for layout in ('before', 'between'):
            for ids in ((), ('A',), ('A', 'AB', 'C')):
                out.append(gen.ro_text([self.base_story(i) for i in ids], layout, gen.meta_elems(4)))
        if self.ro_meta_subsets:
            # running orders holding every subset of the metadata keys (for roMetadataReplace)
            for n in range(0, len(self.meta_keys) + 1):
                for keys in itertools.combinations(self.meta_keys, n):
                    meta = [meta_elem_xml(k, variant=0) for k in keys]
                    out.append(gen.ro_text([self.base_story('A')], 'between', meta))
        return out

    def menu(self, view, res):
        ids = view.story_ids
        L = self.max_list
        new = [p for p in gen.STORY_POOL[:6] if p not in ids]
        inew = ['e', 'f', 'g']
        for pretty in self.pretty:
            for pkind in self.PKINDS:
                base = {'pkind': pkind, 'pretty': pretty}
                for pl in _lists(new[:L + 1], 1, L):
                    payload = tuple((i, 1) for i in pl)
                    yield dict(base, kind='StoryAppend', payload=payload)
                    for tgt in (ids[:1] + ids[-1:] if ids else []) :
                        yield dict(base, kind='StoryInsert', tgt=tgt, payload=payload)
                        yield dict(base, kind='EAStoryInsert', tgt=tgt, payload=payload)
                    yield dict(base, kind='EAStoryInsert', tgt=BLANK, payload=payload)
                for tgt in ids:
                    for pl in _lists([tgt] + new[:L], 1, L):
                        payload = tuple((i, 1) for i in pl)
                        yield dict(base, kind='StoryReplace', tgt=tgt, payload=payload)
                        yield dict(base, kind='EAStoryReplace', tgt=tgt, payload=payload)
                for s in view.stories:
                    items = s.item_ids
                    for pl in _lists(inew[:L + 1], 1, L):
                        payload = tuple((i, 1) for i in pl)
                        for tgt in items[:1] + items[-1:] + [BLANK]:
                            yield dict(base, kind='ItemInsert', story=s.id, tgt=tgt, payload=payload)
                            yield dict(base, kind='EAItemInsert', story=s.id, tgt=tgt, payload=payload)
                    for tgt in items:
                        for pl in _lists([tgt] + inew[:L], 1, L):
                            payload = tuple((i, 1) for i in pl)
                            yield dict(base, kind='ItemReplace', story=s.id, tgt=tgt, payload=payload)
                            yield dict(base, kind='EAItemReplace', story=s.id, tgt=tgt, payload=payload)
            # roStorySend: storyBody at every position, body children every sequence up to body_len
            toks = [('p', 'plain'), ('p', 'empty'), ('i', 'e'), ('x', 1)]
            for sid in ids:
                for pos in ('first', 'middle', 'last', 'only'):
                    for n in range(0, self.body_len + 1):
                        for body in itertools.product(toks, repeat=n):
                            for rich in (False, True):
                                if rich and n != self.body_len:
                                    continue
                                yield {'kind': 'StorySend', 'sid': sid, 'body': body, 'body_pos': pos, 'rich': rich,
                                       'pretty': pretty, 'timing': 'both'}
            for n in range(0, 4):
                for layout in ('before', 'between', 'after', 'none'):
                    for pkind in self.PKINDS:
                        yield {'kind': 'RunningOrderReplace', 'stories': tuple(gen.STORY_POOL[:n]), 'layout': layout,
                               'pkind': pkind, 'pretty': pretty}
            if not pretty:
                # rich (non-ASCII) payloads in str documents that carry a non-UTF-8 encoding declaration
                d = {'pkind': 'rich', 'pretty': False, 'decl': True}
                yield dict(d, kind='StoryAppend', payload=((new[0], 1),))
                yield dict(d, kind='RunningOrderReplace', stories=tuple(gen.STORY_POOL[:2]), layout='before')
                yield {'kind': 'MetaDataReplace', 'elems': ('roSlug', 'mem1'), 'pretty': False, 'decl': True}
                for sid in ids[:1]:
                    yield dict(d, kind='StoryReplace', tgt=sid, payload=((sid, 1),))
                    yield {'kind': 'StorySend', 'sid': sid, 'body': (('p', 'unicode'), ('i', 'e')), 'body_pos': 'last', 'rich': True,
                           'pretty': False, 'timing': 'both', 'decl': True}
                for s_ in view.stories[:1]:
                    yield dict(d, kind='ItemInsert', story=s_.id, tgt=BLANK, payload=(('e', 1),))
            mk = tuple(self.meta_keys) + ('mem0', 'memB')
            for n in range(1, len(mk) + 1):
                for keys in itertools.combinations(mk, n):
                    if 'mem0' in keys and 'memB' in keys:
                        continue     # both have the blank schema: the second would legitimately replace the first
                    yield {'kind': 'MetaDataReplace', 'elems': keys, 'pretty': pretty}

    def render(self, case, view):
        k = case['kind']
        pk = case.get('pkind', 'lean')
        if k == 'MetaDataReplace':
            text = gen.msg_metadata_replace([meta_elem_xml(key) for key in case['elems']])
        elif k == 'RunningOrderReplace':
            text = gen.msg_ro_replace([self.pstory(i, 1, pk) for i in case['stories']], case['layout'], gen.meta_elems(3, variant=1))
        else:
            text = render_case(case, lambda i, v: self.pstory(i, v, pk), lambda i, v: self.pitem(i, v, pk))
        text = gen.prettify(text) if case.get('pretty') else text
        if case.get('decl'):
            # a str document keeps its characters whatever its XML declaration says
            text = '<?xml version="1.0" encoding="ISO-8859-1"?>' + text
        return text

    def accept(self, ctx):
        return False


class HCompletion(HMixed):
    """Histories  <prefix of mutating messages> ; roDelete ; <every message class>.
    In a state that is not completed the menu is roDelete plus a reduced prefix menu; in a
    completed state it is the full H-MIXED menu plus a roCreate and a second roDelete."""
    name = 'H-MIXED/completion'

    def __init__(self, prefix_kinds=('StoryAppend', 'StoryDelete', 'StoryMove', 'ItemDelete', 'ItemInsert', 'MetaDataReplace',
                                     'RunningOrderReplace', 'StorySend', 'EAStorySwap', 'ReadyToAir'), **kw):
        super().__init__(**kw)
        self._prefix = HMixed(kinds=prefix_kinds, max_list=1, meta_subsets=1, pool=kw.get('pool', 4), cap=kw.get('cap', 3))

    def menu(self, view, res):
        if view.completed:
            yield from super().menu(view, res)
            yield {'kind': 'RunningOrder'}
        else:
            yield {'kind': 'RunningOrderEnd'}
            for c in self._prefix.menu(view, res):
                if c['kind'] == 'RunningOrderEnd':
                    continue
                # only prefix messages whose references resolve (they build histories; failures are covered elsewhere)
                vals = [v for k, v in c.items() if k in ('tgt', 'src', 'story', 'sid')] + list(c.get('srcs', ()))
                if UNKNOWN in vals or BLANK in vals or ABSENT in vals:
                    continue
                yield c

    def render(self, case, view):
        if case['kind'] == 'RunningOrder':
            return gen.ro_text([self.story('E')], 'before', gen.meta_elems(1), msg_id=3000)
        return super().render(case, view)

    def accept(self, ctx):
        av = ctx.after_view
        if av is None or av.base is None:
            return False
        return HMixed.accept(self, ctx)


# ---------------------------------------------------------------- enumerated states (no menu)
class HEnum:
    """A finite family of running orders checked state by state (no transitions)."""
    name = 'H-ENUM'

    def __init__(self, texts_fn, label='enum'):
        self.texts_fn = texts_fn
        self.name = 'H-ENUM/' + label

    def initial_states(self):
        return list(self.texts_fn())

    def menu(self, view, res):
        return ()

    def render(self, case, view):
        raise NotImplementedError

    def accept(self, ctx):
        return False


TIMING_KINDS = ('dur', 'text', 'media', 'both', 'dur+text', 'all3', 'zero', 'zero-text', 'none', 'nometa', 'nopayload')
T_STARTED = {'A': '2020-03-01T10:00:00', 'AB': '2020-03-01T10:07:30', 'C': '2020-03-01T11:00:01', 'D': '2020-03-02T00:00:00'}
T_ENDED = {'A': '2020-03-01T10:05:00', 'AB': '2020-03-01T10:09:45', 'C': '2020-03-01T11:30:00', 'D': '2020-03-02T00:00:59'}


def timing_states(max_n=3, kinds=TIMING_KINDS, explicit=('', 's', 'e', 'se'), edstarts=(True, 'empty', False), ids=('A', 'AB', 'C', 'D')):
    """All running orders with n <= max_n stories x timing kind per story x explicit
    StoryStarted/StoryEnded subset per story x roEdStart {present, empty, absent}."""
    def gen_():
        opts = [(k, x) for k in kinds for x in explicit if not (k == 'nometa' and x)]
        for n in range(0, max_n + 1):
            for combo in itertools.product(opts, repeat=n):
                stories = []
                for sid, (k, x) in zip(ids, combo):
                    stories.append(gen.story_xml(sid, 0, body=(('p', 'plain'),), timing=k,
                                                 started=T_STARTED.get(sid, '2020-03-01T10:40:00') if 's' in x else None,
                                                 ended=T_ENDED.get(sid, '2020-03-01T10:55:05') if 'e' in x else None))
                for ed in edstarts:
                    meta = [m for m in gen.meta_elems(2, edstart=ed)]
                    yield gen.ro_text(stories, 'before', meta)
    return gen_


ITEM_FIELDS = ('slug', 'objID', 'objType', 'mosID', 'note')


def accessor_states(max_n=3, kinds=('dur', 'both', 'none', 'nometa'), edstarts=(True, 'empty', False)):
    """Running orders with n <= max_n stories x timing kind x items 0..2 carrying every subset of
    the optional item fields (the subsets are spread over the stories/items systematically)."""
    def gen_():
        subsets = [tuple(f for i, f in enumerate(ITEM_FIELDS) if mask >> i & 1) for mask in range(32)]
        # optional tags present but blank
        subsets[3] = ('slug-blank', 'objID-blank')
        subsets[10] = ('slug', 'mosID-blank', 'objType-blank', 'note-blank')
        subsets[17] = ('slug-blank', 'note')
        ids = ('A', 'AB', 'C')
        for n in range(0, max_n + 1):
            for combo in itertools.product(kinds, repeat=n):
                for nitems in itertools.product((0, 1, 2), repeat=n):
                    for rot in range(0, 32, 5 if n else 32):
                        stories = []
                        k = rot
                        for sid, tk, ni in zip(ids, combo, nitems):
                            body = [('p', 'plain'), ('x', 1)]      # the foreign element holds a hidden <p> and <item>
                            for j in range(ni):
                                body.append(('i', gen.ITEM_POOL[j], 0, subsets[k % 32]))
                                body.append(('p', 'round'))
                                k += 7
                            stories.append(gen.story_xml(sid, 0, body=tuple(body), timing=tk, slug=(False if k % 3 == 0 else 'blank' if k % 5 == 0 else True)))
                        for ed in edstarts:
                            yield gen.ro_text(stories, 'before', gen.meta_elems(2, edstart=ed))
    return gen_


BODY_TOKENS = tuple(('p', k) for k in gen.P_KINDS) + (('i', 'a'), ('x', 1))


def body_states(max_len=4, tokens=BODY_TOKENS):
    """One-story running orders whose story children are every sequence of length <= max_len over
    the paragraph kinds, an item and a foreign element."""
    def gen_():
        for n in range(0, max_len + 1):
            for body in itertools.product(tokens, repeat=n):
                # item ids must stay unique inside the story
                k = 0
                b = []
                for t in body:
                    if t[0] == 'i':
                        b.append(('i', gen.ITEM_POOL[k % len(gen.ITEM_POOL)] + str(k // len(gen.ITEM_POOL) or '')))
                        k += 1
                    else:
                        b.append(t)
                yield gen.ro_text([gen.story_xml('A', 0, body=tuple(b), timing='dur')], 'before', gen.meta_elems(1))
    return gen_
