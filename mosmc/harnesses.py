"""Shared drivers (DESIGN 2.4).  A harness closes the system: initial states, the finite
menu of cases enabled in a state, the renderer and the successor caps."""
import itertools

from . import gen, spec
from .gen import BLANK, ABSENT, UNKNOWN


def _lists(cands, lo, hi, repeats=False):
    """All lists of length lo..hi over cands (ordered); with or without repeated elements."""
    for n in range(lo, hi + 1):
        if repeats:
            yield from itertools.product(cands, repeat=n)
        else:
            yield from itertools.permutations(cands, n)


class HStory:
    """Story-level harness: running orders over a pool of story IDs x roCreate layouts;
    menu = every story-level message over the alphabet."""
    name = 'H-STORY'

    def __init__(self, pool=5, cap=4, max_list=2, layouts=gen.LAYOUTS, timing='dur',
                 kinds=spec.STORY_KINDS, init_max=None, rich=False, nmeta=3, packings=('one', 'per'),
                 pretty_msgs=False, replace_variant=0, no_expand=('StorySend',)):
        self.pool = gen.STORY_POOL[:pool]
        self.cap = cap
        self.max_list = max_list
        self.layouts = layouts
        self.timing = timing
        self.kinds = kinds
        self.init_max = cap if init_max is None else init_max
        self.rich = rich
        self.nmeta = nmeta
        self.packings = packings
        self.pretty_msgs = pretty_msgs
        # variant of replacement payloads: 0 = same content as the initial stories, so the state
        # space is (ID sequence x metadata interleaving) only; content arrival is C04's business
        self.replace_variant = replace_variant
        self.no_expand = no_expand

    # -- content
    def story(self, sid, variant=0):
        body = (('p', 'plain'), ('i', 'a'), ('i', 'c')) if self.rich else (('p', 'plain'),)
        return gen.story_xml(sid, variant, body=body, timing=self.timing, rich=self.rich)

    def initial_states(self):
        out = []
        for layout in self.layouts:
            meta = gen.meta_elems(self.nmeta)
            for n in range(0, self.init_max + 1):
                for ids in itertools.permutations(self.pool, n):
                    out.append(gen.ro_text([self.story(i) for i in ids], layout, meta))
        return out

    # -- menu
    def menu(self, view, res):
        ids = view.story_ids
        n = len(ids)
        L = self.max_list
        new = [p for p in self.pool if p not in ids]
        refs_t = ids + [UNKNOWN, BLANK, ABSENT]
        refs_s = ids + [UNKNOWN, BLANK]
        K = self.kinds
        if 'StoryAppend' in K:
            for pl in _lists(new[:3], 1, L):
                if n + len(pl) > self.cap:
                    res.disabled['cap:StoryAppend'] += 1
                    continue
                yield {'kind': 'StoryAppend', 'payload': tuple((i, 0) for i in pl)}
        for kind in ('StoryInsert', 'EAStoryInsert'):
            if kind not in K:
                continue
            cands = new[:2] + ids
            for tgt in refs_t:
                for pl in _lists(cands, 1, L):
                    if n + sum(1 for i in pl if i not in ids) > self.cap:
                        res.disabled['cap:' + kind] += 1
                        continue
                    yield {'kind': kind, 'tgt': tgt, 'payload': tuple((i, 0) for i in pl)}
        for kind in ('StoryReplace', 'EAStoryReplace'):
            if kind not in K:
                continue
            for tgt in refs_t:
                cands = new[:2] + ([tgt] if tgt in ids else [])
                for pl in _lists(cands, 0, L):
                    if n - 1 + len(pl) > self.cap:
                        res.disabled['cap:' + kind] += 1
                        continue
                    yield {'kind': kind, 'tgt': tgt, 'payload': tuple((i, self.replace_variant) for i in pl)}
        if 'StoryMove' in K:
            for src in refs_s:
                for tgt in refs_t:
                    yield {'kind': 'StoryMove', 'src': src, 'tgt': tgt}
            yield {'kind': 'StoryMove', 'src': ABSENT, 'tgt': ABSENT}
        if 'EAStoryMove' in K:
            for tgt in refs_t:
                for srcs in _lists(refs_s, 1, L, repeats=True):
                    for packing in self.packings:
                        if packing == 'per' and len(srcs) < 2:
                            continue
                        yield {'kind': 'EAStoryMove', 'tgt': tgt, 'srcs': tuple(srcs), 'packing': packing}
        for kind in ('StoryDelete', 'EAStoryDelete'):
            if kind not in K:
                continue
            for srcs in _lists(refs_s, 1, L, repeats=True):
                for packing in (self.packings if kind.startswith('EA') else ('one',)):
                    if packing == 'per' and len(srcs) < 2:
                        continue
                    yield {'kind': kind, 'srcs': tuple(srcs), 'packing': packing}
        if 'EAStorySwap' in K:
            for a in refs_s:
                for b in refs_s:
                    yield {'kind': 'EAStorySwap', 'srcs': (a, b)}
        if 'StorySend' in K:
            for sid in refs_s:
                yield {'kind': 'StorySend', 'sid': sid}

    # -- renderer
    def render(self, case, view):
        text = render_case(case, self.story, None)
        return gen.prettify(text) if self.pretty_msgs else text

    def accept(self, ctx):
        if ctx.case['kind'] in self.no_expand:
            return False
        av = ctx.after_view
        if av is None:
            return False
        ids = av.story_ids
        # preconditions of the properties: unique, non-blank story IDs; cap on size
        if len(ids) > self.cap or len(set(ids)) != len(ids) or any(not i for i in ids):
            return False
        return True


def render_case(case, story_fn, item_fn):
    """Abstract case -> message XML."""
    k = case['kind']
    g = gen
    if k == 'StoryAppend':
        return g.msg_story_append([story_fn(i, v) for i, v in case['payload']])
    if k == 'StoryInsert':
        return g.msg_story_insert(case['tgt'], [story_fn(i, v) for i, v in case['payload']])
    if k == 'EAStoryInsert':
        return g.msg_ea('INSERT', target_story=case['tgt'], sources=[story_fn(i, v) for i, v in case['payload']],
                        target_present=case['tgt'] != ABSENT or case.get('empty_target', False))
    if k == 'StoryReplace':
        return g.msg_story_replace(case['tgt'], [story_fn(i, v) for i, v in case['payload']])
    if k == 'EAStoryReplace':
        return g.msg_ea('REPLACE', target_story=case['tgt'], sources=[story_fn(i, v) for i, v in case['payload']])
    if k == 'StoryMove':
        return g.msg_story_move(case['src'], case['tgt'])
    if k == 'EAStoryMove':
        return g.msg_ea('MOVE', target_story=case['tgt'], sources=[g.id_tag('storyID', s) for s in case['srcs']],
                        packing=case.get('packing', 'one'), target_present=case['tgt'] != ABSENT)
    if k == 'StoryDelete':
        return g.msg_story_delete(case['srcs'])
    if k == 'EAStoryDelete':
        return g.msg_ea('DELETE', sources=[g.id_tag('storyID', s) for s in case['srcs']],
                        packing=case.get('packing', 'one'), target_present=case.get('empty_target', False))
    if k == 'EAStorySwap':
        return g.msg_ea('SWAP', sources=[g.id_tag('storyID', s) for s in case['srcs']],
                        target_present=case.get('empty_target', False), target_story=BLANK)
    if k == 'StorySend':
        return g.msg_story_send(case['sid'], variant=1, body=case.get('body', (('p', 'plain'), ('i', 'a'))),
                                timing=case.get('timing', 'dur'), rich=case.get('rich', False),
                                body_pos=case.get('body_pos', 'last'))
    # ---- item level
    if k == 'ItemInsert':
        return g.msg_item_insert(case['story'], case['tgt'], [item_fn(i, v) for i, v in case['payload']])
    if k == 'EAItemInsert':
        return g.msg_ea('INSERT', target_story=case['story'], target_item=case['tgt'],
                        sources=[item_fn(i, v) for i, v in case['payload']])
    if k == 'ItemReplace':
        return g.msg_item_replace(case['story'], case['tgt'], [item_fn(i, v) for i, v in case['payload']])
    if k == 'EAItemReplace':
        return g.msg_ea('REPLACE', target_story=case['story'], target_item=case['tgt'],
                        sources=[item_fn(i, v) for i, v in case['payload']])
    if k == 'ItemDelete':
        return g.msg_item_delete(case['story'], case['srcs'])
    if k == 'EAItemDelete':
        return g.msg_ea('DELETE', target_story=case['story'], sources=[g.id_tag('itemID', s) for s in case['srcs']],
                        packing=case.get('packing', 'one'))
    if k == 'ItemMoveMultiple':
        return g.msg_item_move_multiple(case['story'], case['srcs'], case['tgt'])
    if k == 'EAItemMove':
        return g.msg_ea('MOVE', target_story=case['story'], target_item=case['tgt'],
                        sources=[g.id_tag('itemID', s) for s in case['srcs']], packing=case.get('packing', 'one'))
    if k == 'EAItemSwap':
        return g.msg_ea('SWAP', target_story=case['story'], sources=[g.id_tag('itemID', s) for s in case['srcs']])
    # ---- other
    if k == 'RunningOrderEnd':
        return g.msg_ro_delete()
    if k == 'ReadyToAir':
        return g.msg_ready_to_air()
    raise ValueError(k)
