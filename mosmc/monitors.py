"""Per-property monitors over executed transitions.  Each monitor is a callable
mon(ctx, res) -> iterable of (signature, detail); it must demand exactly what its
property states and nothing more (DESIGN 2.2 / 3)."""
from collections import Counter

from . import spec, seqref, tree
from .gen import BLANK, ABSENT, ref_name

END = seqref.END


def _fmt(seq):
    return '[' + ','.join('∅' if x is None else (x or "''") for x in seq) + ']' if seq is not None else 'None'


def _case_str(case):
    parts = []
    for k, v in case.items():
        if k == 'kind':
            continue
        if isinstance(v, tuple):
            v = '(' + ','.join(ref_name(x) if isinstance(x, str) else
                               (ref_name(x[0]) + ('' if not x[1] else "'")) for x in v) + ')'
        elif isinstance(v, str):
            v = ref_name(v)
        parts.append(f'{k}={v}')
    return case['kind'] + ' ' + ' '.join(parts)


def _seq_dev(before, after, expected):
    if after is None:
        return 'container-lost'
    if list(after) == list(before):
        return 'unchanged'
    ca, ce = Counter(after), Counter(expected)
    if ca == ce:
        return 'misordered'
    lost = ce - ca
    gained = ca - ce
    if lost and gained:
        return 'lost+gained'
    return 'lost' if lost else 'gained'


def _lenient_packing(case):
    # several <element_source> tags are outside the MOS DTD (one element_source holding all IDs):
    # exact semantics are only demanded of the schema form
    return case.get('packing', 'one') != 'one'


# ================================================================ C01 / C02
class OrderMonitor:
    """Sequence of story IDs (level='story') / item IDs of the addressed story (level='item')."""

    def __init__(self, level):
        self.level = level

    def __call__(self, ctx, res):
        if ctx.level != self.level:
            return
        if ctx.view.completed:
            return      # a completed running order refuses every message: that is C07's business
        e = ctx.exp
        case = ctx.case
        kind = case['kind']
        before = ctx.seq_before
        obs = ctx.obs
        if obs.phase in ('parse-ro', 'parse-msg'):
            if e.schema and e.resolves:
                yield (f'{kind}:{e.note}:unparsed:{obs.exc}', f'{_case_str(case)}: {obs.phase} failed with {obs.exc}: {obs.exc_msg}')
            return
        after = ctx.seq_after
        # moves and swaps never add or lose an element, whatever the input
        if kind in spec.MOVE_KINDS and before is not None:
            res.extra['multiset_checked'] += 1
            if after is None or sorted(after) != sorted(before):
                yield (f'{kind}:{e.note}:multiset-changed',
                       f'{_case_str(case)} on {_fmt(before)} -> {_fmt(after)} (exc={obs.exc}): a move/swap added or lost an element')
                return
        if not e.schema or not e.resolves or _lenient_packing(case):
            res.extra['not_fully_resolved_cases'] += 1
            return
        res.extra['resolved_cases'] += 1
        res.by_class[f'{kind}:{e.note}'] += 1
        if list(e.alts[0]) != list(before):
            res.extra['resolved_cases_expecting_change'] += 1
        if obs.exc is not None:
            if ctx.merge_error and e.may_raise:
                return
            yield (f'{kind}:{e.note}:raised:{obs.exc}',
                   f'{_case_str(case)} on {_fmt(before)}: all references resolve but the merge raised {obs.exc}: {obs.exc_msg}')
            return
        if after is None or tuple(after) not in e.alts:
            dev = _seq_dev(before, after, e.alts[0])
            yield (f'{kind}:{e.note}:{dev}',
                   f'{_case_str(case)} on {_fmt(before)}: expected {_fmt(e.alts[0])} got {_fmt(after)}')


def W_any(obs):
    return bool(obs.warns)


# ================================================================ C05
def mon_unchanged_on_raise(ctx, res):
    obs = ctx.obs
    if obs.exc is None or obs.phase != 'merge':
        return
    res.extra['raising_transitions'] += 1
    e = ctx.exp
    note = e.note if e is not None else ''
    res.by_class[f"{ctx.case['kind']}:{note}:{obs.exc}"] += 1
    if ctx.changed:
        d = None
        try:
            d = tree.first_diff(tree.node(tree.read(obs.before or ctx.before)), tree.node(tree.read(obs.after)))
        except Exception as ex:  # noqa
            d = f'unreadable after state: {ex}'
        yield (f"{ctx.case['kind']}:{note}:mutated-before-raise:{obs.exc}",
               f"{_case_str(ctx.case)} raised {obs.exc} ({obs.exc_msg}) but the running order changed: "
               f"{_fmt(ctx.seq_before)} -> {_fmt(ctx.seq_after)}; first difference {d}")
        return
    # the documented method behind `+`: msg.merge(ro) on freshly parsed objects must leave ro unchanged as well when it raises
    if getattr(ctx, 'ro_obj', None) is None or not obs.merge_error:
        return
    from . import target
    ro2, e1 = target.parse(ctx.ns, ctx.before)
    m2, e2 = target.parse(ctx.ns, ctx.msg)
    if ro2 is None or m2 is None:
        return
    o2 = _merge_direct(ctx.ns, ro2, m2)
    res.extra['raising_transitions_repeated_through_msg.merge'] += 1
    if o2.exc is not None and o2.after != o2.before:
        try:
            d = tree.first_diff(tree.node(tree.read(o2.before)), tree.node(tree.read(o2.after)))
        except Exception as ex:  # noqa
            d = f'unreadable after state: {ex}'
        yield (f"{ctx.case['kind']}:{note}:msg.merge:mutated-before-raise:{o2.exc}",
               f"{_case_str(ctx.case)} through msg.merge(ro) raised {o2.exc} ({o2.exc_msg}) but the running order changed; first difference {d}")


# ================================================================ C12
def mon_library_exceptions(ctx, res):
    obs = ctx.obs
    e = ctx.exp
    if e is not None and not e.schema:
        res.extra['not_schema_shaped'] += 1
        return
    res.extra['schema_shaped'] += 1
    if obs.exc is None:
        return
    note = e.note if e is not None else ''
    res.by_class[f"{ctx.case['kind']}:{obs.exc}"] += 1
    if obs.exc.startswith('BUILTIN:'):
        yield (f"{ctx.case['kind']}:{note}:{obs.phase}:{obs.exc}",
               f"{_case_str(ctx.case)} on stories {_fmt(ctx.view.story_ids)}: {obs.phase} raised {obs.exc[8:]}: {obs.exc_msg}")
    elif obs.phase == 'merge' and not ctx.merge_error:
        yield (f"{ctx.case['kind']}:{note}:merge-raised-non-merge-error:{obs.exc}",
               f"{_case_str(ctx.case)}: `+` raised {obs.exc}, which is not a MosMergeError")


# ================================================================ C06
def _pos_sig(seq, s, named):
    i = list(seq).index(s)
    return frozenset(x for x in seq[:i] if x not in named)


def mon_nothing_skipped(ctx, res):
    if ctx.view.completed:
        return
    if ctx.level not in ('story', 'item'):
        # roMetadataReplace / roReplace / roDelete / roReadyToAir name no story or item: when they are
        # applied they emit no mosromgr warning
        if ctx.obs.exc is None and ctx.obs.phase != 'parse-msg':
            res.extra['fully_applicable_cases'] += 1
            if ctx.obs.warns:
                yield (f"{ctx.case['kind']}::spurious:{ctx.obs.warns[0]}",
                       f"{_case_str(ctx.case)}: applied without error but emitted {list(ctx.obs.warns)}")
        return
    e = ctx.exp
    case = ctx.case
    kind = case['kind']
    obs = ctx.obs
    if not e.schema or _lenient_packing(case):
        return
    if obs.phase != 'merge' and obs.exc is not None:
        return
    if obs.exc is not None:
        # a MosMergeError is an allowed signal (a raise on a fully applicable message is C01/C02's business).  Anything
        # else leaving the merge of a message that owes a signal is neither of the two reports the statement allows
        # (C12 reports the exception type as such)
        if e.must_signal and not obs.merge_error and not W_any(obs):
            yield (f'{kind}:{e.note}:neither-warning-nor-MosMergeError:{obs.exc}',
                   f'{_case_str(case)} on {_fmt(ctx.seq_before)}: an unresolvable / duplicate element is reported neither by a warning nor by '
                   f'MosMergeError - the merge ended with {obs.exc} ({obs.exc_msg})')
        return
    before, after = ctx.seq_before, ctx.seq_after
    W = Counter(obs.warns)
    owed, opt = e.owed, e.optional
    res.by_class[f'{kind}:{e.note}'] += 1
    if e.must_signal:
        res.extra['cases_with_unresolvable_or_duplicate'] += 1
    else:
        res.extra['fully_applicable_cases'] += 1
    cats = set(W) | set(owed)
    for c in sorted(cats):
        lo, hi = owed.get(c, 0), owed.get(c, 0) + opt.get(c, 0)
        if W.get(c, 0) < lo:
            yield (f'{kind}:{e.note}:silent:{c}',
                   f'{_case_str(case)} on {_fmt(before)}: {lo} x {c} owed (or MosMergeError), {W.get(c, 0)} emitted, no exception; result {_fmt(after)}')
        elif W.get(c, 0) > hi:
            what = 'spurious' if not e.must_signal else 'excess'
            yield (f'{kind}:{e.note}:{what}:{c}',
                   f'{_case_str(case)} on {_fmt(before)}: at most {hi} x {c} expected, {W.get(c, 0)} emitted')
    if after is None or before is None:
        return
    acted = list(e.acted)
    if not acted:
        return
    res.extra['acted_upon_checks'] += 1
    if e.op == 'delete':
        left = [s for s in acted if s in after]
        if left:
            yield (f'{kind}:{e.note}:named-not-deleted',
                   f'{_case_str(case)} on {_fmt(before)}: {left} listed and present but still there: {_fmt(after)}; warnings {list(obs.warns)}')
    elif e.op in ('insert', 'append', 'replace'):
        if e.target[0] in ('unres',):
            return
        if e.target[0] == 'lenient' and sum(W.values()):
            return      # the undefined target was reported as not found: nothing had to be inserted
        missing = [s for s in acted if after.count(s) != 1]
        if missing:
            yield (f'{kind}:{e.note}:carried-not-applied',
                   f'{_case_str(case)} on {_fmt(before)}: carried {missing} not present exactly once afterwards: {_fmt(after)}; warnings {list(obs.warns)}')
    elif e.op == 'move' and e.defined and e.target[0] in ('at', 'end'):
        tgt = e.target[1] if e.target[0] == 'at' else END
        if sorted(after) != sorted(before):
            return
        expected = seqref.move_before(before, acted, tgt)
        ignored = []
        for s in acted:
            o, x, a = _pos_sig(before, s, acted), _pos_sig(expected, s, acted), _pos_sig(after, s, acted)
            if x != o and a == o:
                ignored.append(s)
        if ignored:
            yield (f'{kind}:{e.note}:source-ignored',
                   f'{_case_str(case)} on {_fmt(before)}: listed {ignored} stayed where they were with no signal: {_fmt(after)} (protocol: {_fmt(expected)})')
    elif e.op == 'swap' and e.resolves:
        if list(after) == list(before):
            yield (f'{kind}:{e.note}:swap-ignored',
                   f'{_case_str(case)} on {_fmt(before)}: nothing happened and nothing was reported')


# ================================================================ C03
def _frame(elem, drop, slots=()):
    """Node tuple of elem with the elements whose id() is in `drop` (and their tails) removed; an
    element whose id() is in `slots` is replaced by a placeholder, so its POSITION stays part of the frame."""
    kids = tuple(('<slot>', (), '', '', ()) if id(c) in slots else _frame(c, drop, slots) for c in elem if id(c) not in drop)
    return (elem.tag, tuple(sorted(elem.attrib.items())), tree._norm(elem.text), tree._norm(elem.tail), kids)


def _ids_eq(sv_list, ids):
    return [s for s in sv_list if s.id is not None and s.id != '' and s.id in ids]


def _named_sets(ctx):
    """-> (drop_before, drop_after, moved_pairs) as sets of id(element) in the before / after
    trees, per DESIGN Appendix A; moved_pairs = [(label, elem_before, elem_after)] for elements
    that may change position but not content."""
    from .harnesses import meta_key_of, meta_key_tuple
    case = ctx.case
    kind = case['kind']
    bv, av = ctx.lib_view, ctx.after_view
    db, da, moved = set(), set(), []

    def real(ids):
        return {i for i in ids if i not in (BLANK, ABSENT)}

    if ctx.level == 'story':
        before_ids = set(bv.story_ids)
        named, carried, movers = set(), set(), set()
        if kind in ('StoryAppend', 'StoryInsert', 'EAStoryInsert'):
            carried = {p[0] for p in case['payload']} - before_ids
        elif kind in ('StoryReplace', 'EAStoryReplace'):
            if case['tgt'] in before_ids:
                named = {case['tgt']}
                carried = {p[0] for p in case['payload']}
        elif kind == 'StorySend':
            if case['sid'] in before_ids:
                named = carried = {case['sid']}
        elif kind in ('StoryDelete', 'EAStoryDelete'):
            named = real(case['srcs']) & before_ids
        elif kind == 'StoryMove':
            movers = real([case['src']]) & before_ids
        elif kind in ('EAStoryMove', 'EAStorySwap'):
            movers = real(case['srcs']) & before_ids
        for s in bv.stories:
            if s.id in named or s.id in movers:
                db.add(id(s.elem))
        for s in av.stories:
            if s.id in named or s.id in carried or s.id in movers:
                da.add(id(s.elem))
        for m in sorted(movers):
            b, a = bv.story(m), av.story(m)
            if b is not None and a is not None:
                moved.append((f'story {m}', b.elem, a.elem))
            elif b is not None:
                moved.append((f'story {m}', b.elem, None))
    elif ctx.level == 'item':
        sb = bv.story(ctx.addressed.id) if ctx.addressed is not None else None
        if sb is not None:
            sa = av.story(sb.id)
            before_ids = set(sb.item_ids)
            named, carried, movers = set(), set(), set()
            if kind in ('ItemInsert', 'EAItemInsert'):
                carried = {p[0] for p in case['payload']}
            elif kind in ('ItemReplace', 'EAItemReplace'):
                if case['tgt'] in before_ids:
                    named = {case['tgt']}
                    carried = {p[0] for p in case['payload']}
            elif kind in ('ItemDelete', 'EAItemDelete'):
                named = real(case['srcs']) & before_ids
            elif kind in ('ItemMoveMultiple', 'EAItemMove', 'EAItemSwap'):
                movers = real(case['srcs']) & before_ids
            for k in sb.kids:
                if k[0] == 'item' and (k[1] in named or k[1] in movers):
                    db.add(id(k[2]))
            if sa is not None:
                for k in sa.kids:
                    if k[0] == 'item' and (k[1] in named or k[1] in carried or k[1] in movers):
                        da.add(id(k[2]))
                for m in sorted(movers):
                    b = [k[2] for k in sb.kids if k[0] == 'item' and k[1] == m]
                    a = [k[2] for k in sa.kids if k[0] == 'item' and k[1] == m]
                    if b:
                        moved.append((f'item {m} of story {sb.id}', b[0], a[0] if a else None))
    else:
        if kind == 'MetaDataReplace':
            keys = {meta_key_tuple(k) for k in case['elems']}
            for _, c in bv.meta:
                if meta_key_of(c) in keys:
                    db.add(id(c))
            for _, c in av.meta:
                if meta_key_of(c) in keys:
                    da.add(id(c))
        elif kind == 'RunningOrderReplace':
            for c in bv.root:
                if c.tag == 'roCreate':
                    db.add(id(c))
            for c in av.root:
                if c.tag == 'roCreate':
                    da.add(id(c))
        elif kind == 'RunningOrderEnd':
            # the completion record is what the message brings - unless the running order was completed
            # already (then the message is refused and names nothing)
            if not bv.completed:
                for c in av.root:
                    if c.tag == 'mosromgrmeta':
                        da.add(id(c))
    return db, da, moved


def mon_frame(ctx, res):
    obs = ctx.obs
    if obs.phase in ('parse-ro', 'parse-msg') and obs.exc:
        return
    av = ctx.after_view
    case = ctx.case
    kind = case['kind']
    e = ctx.exp
    note = e.note if e is not None else ''
    if av is None or av.base is None:
        yield (f'{kind}:{note}:unreadable-after', f'{_case_str(case)}: running order unreadable / without roCreate after the merge')
        return
    db, da, moved = _named_sets(ctx)
    if obs.exc is not None:
        # a message that is refused must not have modified, removed or displaced anything - in particular
        # not the elements its resolvable references name (second sentence of the property)
        db, da, moved = set(), set(), []
    sb = sa = ()
    if kind == 'RunningOrderReplace':
        # the content of roCreate is what the message replaces; WHERE roCreate sits in the envelope is frame
        sb, sa, db, da = db, da, set(), set()
    fb = _frame(ctx.lib_view.root, db, sb)
    fa = _frame(av.root, da, sa)
    res.extra['frames_compared'] += 1
    if db or da:
        res.extra['frames_with_named_elements'] += 1
    else:
        res.extra['frames_with_nothing_named'] += 1
    res.by_class[f'{kind}:{note}'] += 1
    if fb != fa:
        d = tree.first_diff(fb, fa)
        what = 'nothing-named' if not db and not da else 'named'
        yield (f'{kind}:{note}:collateral:{what}',
               f'{_case_str(case)} on stories {_fmt(ctx.view.story_ids)}: an element the message does not name changed: {d}'
               f' (story IDs after: {_fmt(av.story_ids)}; exc={obs.exc})')
        return
    for label, b, a in moved:
        if a is None:
            continue  # a lost element is C01/C02's (multiset) business
        nb, na = tree.strip_tail(tree.node(b)), tree.strip_tail(tree.node(a))
        if nb != na:
            yield (f'{kind}:{note}:moved-element-modified',
                   f'{_case_str(case)}: {label} may only change position but its content changed: {tree.first_diff(nb, na)}')
            return


# ================================================================ C04
def _msg_base(msg_text):
    root = tree.read(msg_text)
    for c in root:
        if c.tag.startswith('ro') and c.tag not in ('roID',):
            return c
    return None


def _expected_story_from_send(ss):
    """Independent statement of the roStorySend -> story conversion: the sent element renamed
    'story', the children of storyBody spliced in at its position in their original order,
    storyItem children of storyBody renamed 'item'."""
    kids = []
    for c in ss:
        if c.tag == 'storyBody':
            for b in c:
                n = tree.node(b)
                if b.tag == 'storyItem':
                    n = ('item',) + n[1:]
                kids.append(n)
        else:
            kids.append(tree.node(c))
    return ('story', tuple(sorted(ss.attrib.items())), tree._norm(ss.text), '', tuple(kids))


def mon_payload(ctx, res):
    found = False
    for f in _mon_payload(ctx, res):
        found = True
        yield f
    if not found and ctx.obs.exc is None and ctx.case['kind'] in _REUSE_KINDS:
        yield from _payload_reuse(ctx, res)


_REUSE_KINDS = ('StoryAppend', 'StoryInsert', 'EAStoryInsert', 'StoryReplace', 'EAStoryReplace', 'StorySend', 'RunningOrderReplace')


def _payload_reuse(ctx, res):
    """The same message object, merged a second time after the running order that first received it
    was edited inside the carried stories, must still deliver exactly the content that was sent."""
    from . import target, gen
    ns = ctx.ns
    kind = ctx.case['kind']
    m, e = target.parse(ns, ctx.msg)
    ro_a, e = target.parse(ns, ctx.before)
    o_a = target.step_live(ns, ro_a, m)
    if o_a.exc is not None or o_a.after is None:
        return
    va = tree.RoView(o_a.after)
    base = _msg_base(ctx.msg)
    if kind == 'StorySend':
        carried = [ctx.case['sid']] if va.story(ctx.case['sid']) is not None else []
    else:
        src = base.find('element_source') if base.tag == 'roElementAction' else base
        carried = [tree.child_text(c, 'storyID') for c in src if c.tag == 'story']
        carried = [c for c in carried if va.story(c) is not None and (kind == 'RunningOrderReplace' or ctx.view.story(c) is None or
                                                                       (c == ctx.case.get('tgt') and kind in ('StoryReplace', 'EAStoryReplace')))]
    if not carried:
        return
    edits = 0
    for cid in carried:
        sv = va.story(cid)
        texts = [gen.msg_item_insert(cid, gen.BLANK, [gen.item_xml('zz9', 0, 'edit')], msg_id=2500)]
        if sv.item_ids:
            texts.append(gen.msg_item_delete(cid, [sv.item_ids[0]], msg_id=2501))
        for t in texts:
            eo, _ = target.parse(ns, t)
            oe = target.step_live(ns, ro_a, eo)
            if oe.exc is None:
                edits += 1
    if not edits:
        return
    res.extra['reuse_after_edit_histories'] += 1
    ro_b, e = target.parse(ns, ctx.before)
    o_b = target.step_live(ns, ro_b, m)          # the same message object again
    if o_b.exc is not None or o_b.after is None:
        yield (f'{kind}:reuse-after-edit:raised:{o_b.exc}',
               f'{_case_str(ctx.case)}: the message object merged again after the first running order was edited raised {o_b.exc}')
        return
    vb = tree.RoView(o_b.after)
    if kind == 'StorySend':
        exp = _expected_story_from_send(base)
        got = vb.story(carried[0])
        g = tree.strip_tail(tree.node(got.elem)) if got is not None else None
        if g != exp:
            yield (f'{kind}:reuse-after-edit:content-differs',
                   f'{_case_str(ctx.case)}: ro1 += msg; items of the sent story edited in ro1; ro2 += the same msg object: the story arriving in ro2 '
                   f'differs from the sent story: {tree.first_diff(exp, g)}')
        return
    src = base.find('element_source') if base.tag == 'roElementAction' else base
    for c in src:
        if c.tag != 'story':
            continue
        cid = tree.child_text(c, 'storyID')
        if cid not in carried:
            continue
        got = vb.story(cid)
        e_, g = tree.strip_tail(tree.node(c)), tree.strip_tail(tree.node(got.elem)) if got is not None else None
        if e_ != g:
            yield (f'{kind}:reuse-after-edit:content-differs',
                   f'{_case_str(ctx.case)}: ro1 += msg; items of carried story {cid} edited in ro1; ro2 += the same msg object: story {cid} arriving in ro2 '
                   f'differs from the message text: {tree.first_diff(e_, g)}')
            return


def _mon_payload(ctx, res):
    obs = ctx.obs
    case = ctx.case
    kind = case['kind']
    if obs.exc is not None:
        if obs.phase != 'merge' or not ctx.merge_error:
            yield (f'{kind}:raised:{obs.exc}', f'{_case_str(case)}: payload-carrying message with resolvable references raised {obs.exc}: {obs.exc_msg}')
        return
    av = ctx.after_view
    if av is None or av.base is None:
        yield (f'{kind}:unreadable-after', f'{_case_str(case)}: running order unreadable after the merge')
        return
    base = _msg_base(ctx.msg)
    label = f"{kind}:{case.get('pkind', '')}{',pretty' if case.get('pretty') else ''}"
    res.by_class[label + ':' + str(len(case.get('payload', case.get('elems', case.get('stories', case.get('body', ()))))))] += 1
    if kind == 'StorySend':
        if ctx.view.story(case['sid']) is None:
            return
        exp = _expected_story_from_send(base)
        got = av.story(case['sid'])
        res.extra['carried_elements_compared'] += 1
        if got is None:
            yield (f'{kind}:pos={case["body_pos"]}:lost', f'{_case_str(case)}: the sent story is not in the running order afterwards')
            return
        g = tree.strip_tail(tree.node(got.elem))
        if g != exp:
            yield (f'{kind}:pos={case["body_pos"]}:content-differs',
                   f'{_case_str(case)}: story in the running order differs from the sent story: {tree.first_diff(exp, g)}')
        return
    if kind == 'RunningOrderReplace':
        res.extra['carried_elements_compared'] += 1
        exp = tree.node(base)
        got = tree.node(av.base)
        if exp[1:3] != got[1:3] or exp[4] != got[4]:
            yield (f'{kind}:content-differs',
                   f'{_case_str(case)}: roCreate content differs from the roReplace content: '
                   f'{tree.first_diff(("roCreate",) + exp[1:3] + ("",) + exp[4:], ("roCreate",) + got[1:3] + ("",) + got[4:])}')
        return
    if kind == 'MetaDataReplace':
        have = [tree.strip_tail(tree.node(c)) for _, c in av.meta]
        for c in base:
            if c.tag == 'roID':
                continue
            res.extra['carried_elements_compared'] += 1
            n = tree.strip_tail(tree.node(c))
            if n not in have:
                same_tag = [h for h in have if h[0] == n[0]]
                d = tree.first_diff(n, same_tag[0]) if same_tag else 'no element with that tag'
                yield (f'{kind}:{c.tag}:carried-missing',
                       f'{_case_str(case)}: carried <{c.tag}> is not in the running order with the sent content: {d}')
                return
        return
    # stories / items carried as elements
    if ctx.level == 'story':
        src = base.find('element_source') if base.tag == 'roElementAction' else base
        carried = [c for c in src if c.tag == 'story']
        before_ids = set(ctx.view.story_ids)
        tgt = case.get('tgt')
        for c in carried:
            cid = tree.child_text(c, 'storyID')
            if kind in ('StoryInsert', 'EAStoryInsert', 'StoryAppend') and cid in before_ids:
                continue     # duplicate: skipped by definition
            if kind in ('StoryInsert', 'StoryReplace', 'EAStoryReplace') and tgt not in before_ids:
                return
            if kind == 'EAStoryInsert' and tgt != BLANK and tgt not in before_ids:
                return
            res.extra['carried_elements_compared'] += 1
            got = [s for s in av.stories if s.id == cid]
            if len(got) != 1:
                yield (f'{label}:carried-count', f'{_case_str(case)}: carried story {cid} present {len(got)} times afterwards')
                return
            e, g = tree.strip_tail(tree.node(c)), tree.strip_tail(tree.node(got[0].elem))
            if e != g:
                yield (f'{label}:content-differs', f'{_case_str(case)}: carried story {cid} differs: {tree.first_diff(e, g)}')
                return
    elif ctx.level == 'item':
        sb = ctx.addressed
        if sb is None:
            return
        tgt = case.get('tgt')
        if tgt != BLANK and tgt not in sb.item_ids:
            return
        sa = av.story(sb.id)
        src = base.find('element_source') if base.tag == 'roElementAction' else base
        carried = [c for c in src if c.tag == 'item']
        for c in carried:
            cid = tree.child_text(c, 'itemID')
            res.extra['carried_elements_compared'] += 1
            got = [k[2] for k in sa.kids if k[0] == 'item' and k[1] == cid] if sa is not None else []
            if len(got) != 1:
                yield (f'{label}:carried-count', f'{_case_str(case)}: carried item {cid} present {len(got)} times in story {sb.id} afterwards')
                return
            e, g = tree.strip_tail(tree.node(c)), tree.strip_tail(tree.node(got[0]))
            if e != g:
                yield (f'{label}:content-differs', f'{_case_str(case)}: carried item {cid} differs: {tree.first_diff(e, g)}')
                return


# ================================================================ C07
def mon_completion(ctx, res):
    # (the engine reads ro.completed, repr(ro), ... on the live object before the merge: see touch_before)
    ns = ctx.ns
    obs = ctx.obs
    case = ctx.case
    kind = case['kind']
    if obs.phase == 'parse-msg' and obs.exc:
        return      # a message that cannot be classified is C08/C12's business, not a completion fault
    if obs.phase == 'parse-ro' and obs.exc:
        return      # a state that does not read back is C14's business
    bv = ctx.view
    ro = ctx.ro_obj
    was = bv.completed
    try:
        now = bool(ro.completed)
    except Exception as e:  # noqa
        yield (f'{kind}:completed-accessor-raised', f'{_case_str(case)}: ro.completed raised {type(e).__name__}: {e}')
        return
    # round trip of what is there now
    rt_cls = rt_completed = None
    if obs.after is not None:
        back, e = target_parse(ns, obs.after)
        if back is not None:
            rt_cls, rt_completed = type(back).__name__, bool(back.completed)
        else:
            rt_cls = 'EXC:' + type(e).__name__
    if was:
        res.extra['post_completion_transitions'] += 1
        res.by_class[f'post:{kind}'] += 1
        if not obs.completed_error:
            yield (f'{kind}:post-completion:{obs.exc or "accepted"}',
                   f'{_case_str(case)} added to a completed running order: expected MosCompletedMergeError, got {obs.exc or "no exception"}')
        if ctx.changed:
            yield (f'{kind}:post-completion:changed', f'{_case_str(case)} added to a completed running order changed it')
        if not now:
            yield (f'{kind}:post-completion:flag-lost', f'{_case_str(case)}: completed flag lost')
        if rt_cls != 'RunningOrder' or rt_completed is not True:
            yield (f'{kind}:post-completion:round-trip', f'completed running order read back as {rt_cls} completed={rt_completed}')
        return
    if kind == 'RunningOrderEnd':
        res.extra['completion_transitions'] += 1
        if obs.exc is not None:
            yield (f'{kind}:raised:{obs.exc}', f'roDelete on a running order that is not completed raised {obs.exc}: {obs.exc_msg}')
            return
        av = ctx.after_view
        if not now or av is None or not av.completed:
            yield (f'{kind}:not-completed', 'roDelete merged but the running order is not reported completed')
            return
        if tree.node(bv.base) != tree.node(av.base) or len(av.bases) != 1:
            yield (f'{kind}:content-changed',
                   f'roDelete changed the running-order content: {tree.first_diff(tree.node(bv.base), tree.node(av.base))}')
        metas = [c for c in av.root if c.tag == 'mosromgrmeta']
        sent = _msg_base(ctx.msg)
        rec = metas[0].find('roDelete') if len(metas) == 1 else None
        if rec is None or tree.strip_tail(tree.node(rec)) != tree.strip_tail(tree.node(sent)):
            yield (f'{kind}:record-differs', f'the recorded roDelete differs from the message ({len(metas)} completion records)')
        # envelope outside roCreate / mosromgrmeta untouched
        eb = [tree.node(c) for c in bv.root if c.tag not in ('roCreate', 'mosromgrmeta')]
        ea = [tree.node(c) for c in av.root if c.tag not in ('roCreate', 'mosromgrmeta')]
        if eb != ea:
            yield (f'{kind}:envelope-changed', 'roDelete changed the envelope')
        if rt_cls != 'RunningOrder' or rt_completed is not True:
            yield (f'{kind}:round-trip', f'completed running order read back as {rt_cls} completed={rt_completed}')
        return
    # not completed before, message is not a roDelete: must not be reported completed
    res.extra['never_completed_checks'] += 1
    if now or rt_completed:
        yield (f'{kind}:completed-without-roDelete',
               f'{_case_str(case)}: running order reported completed (live={now}, after round trip={rt_completed}) although no roDelete was merged')


mon_completion.touch_before = True


def target_parse(ns, text):
    from . import target
    return target.parse(ns, text)


# ================================================================ C14
class RoundTrip:
    """State invariant (every state is a serialisation produced by the implementation) and
    one-step bisimulation live-object vs re-parsed text on the spanning-tree edge of each newly
    discovered state."""

    def __init__(self, bisim_harness=None, msg_id=1000, ro_id='RO1', per_kind=3):
        self.bisim_harness = bisim_harness
        self.per_kind = per_kind          # cases per message class in the bisimulation menu
        self.msg_id = msg_id
        self.ro_id = ro_id

    # -- per state
    def state(self, ns, h, text, view, res):
        from . import target
        res.extra['states_round_tripped'] += 1
        ro, e = target.parse(ns, text)
        if ro is None:
            yield ('STATE:unreadable', f'reachable state does not read back: {type(e).__name__}: {e}')
            return
        if type(ro).__name__ != 'RunningOrder':
            yield ('STATE:class', f'reachable state reads back as {type(ro).__name__}')
            return
        try:
            s1 = str(ro)
            ro2, e2 = target.parse(ns, s1)
            s2 = str(ro2) if ro2 is not None else None
        except Exception as e:  # noqa
            yield ('STATE:reserialise-raised', f'{type(e).__name__}: {e}')
            return
        if s2 != s1:
            yield ('STATE:not-idempotent', 'the serialisation of the state does not read back to the same serialisation: '
                   + (str(e2) if s2 is None else str(tree.first_diff(tree.node(tree.read(s1)), tree.node(tree.read(s2))))))
        # ... and nothing may be lost on the way: the serialisation must hold the same document as the state
        try:
            if tree.node(tree.read(s1)) != tree.node(view.root):
                yield ('STATE:serialisation-loses-content',
                       f'str(ro) differs from the document it was read from: {tree.first_diff(tree.node(view.root), tree.node(tree.read(s1)))}')
        except Exception as e:  # noqa
            yield ('STATE:not-well-formed', f'str(ro) is not well-formed: {e}')
        n_ro = sum(1 for c in view.root if c.tag == 'roCreate')
        n_meta = sum(1 for c in view.root if c.tag == 'mosromgrmeta')
        if n_ro != 1:
            yield (f'STATE:roCreate-count={n_ro}', f'{n_ro} roCreate children of the root')
        if n_meta > 1:
            yield (f'STATE:mosromgrmeta-count={n_meta}', f'{n_meta} completion records')
        if any(c.tag.startswith('ro') and c.tag != 'roCreate' for c in view.root):
            yield ('STATE:foreign-message-element', 'a message element other than roCreate sits under the root')
        try:
            mid, rid, comp = ro.message_id, ro.ro_id, bool(ro.completed)
        except Exception as e:  # noqa
            yield ('STATE:envelope-accessor-raised', f'{type(e).__name__}: {e}')
            return
        if mid != self.msg_id:
            yield ('STATE:message-id', f'message_id is {mid!r}, the roCreate had {self.msg_id}')
        if rid != self.ro_id:
            yield ('STATE:ro-id', f'ro_id is {rid!r}, the roCreate had {self.ro_id!r}')
        if comp != view.completed:
            yield ('STATE:completed-flag', f'completed={comp} but completion record present={view.completed}')

    # -- per transition
    def __call__(self, ctx, res):
        from . import target
        obs = ctx.obs
        kind = ctx.case['kind']
        if obs.exc is not None and obs.phase != 'merge':
            return
        if obs.after is None:
            yield (f'{kind}:unserialisable', f'{_case_str(ctx.case)}: str(ro) raised after the merge: {obs.exc}')
            return
        # the live result and its re-read must agree
        try:
            back = tree.read(obs.after)
        except Exception as e:  # noqa
            yield (f'{kind}:not-well-formed', f'{_case_str(ctx.case)}: serialisation is not well-formed XML: {e}')
            return
        if self.bisim_harness is None or obs.exc is not None or not ctx.changed:
            return
        if obs.after in res.successors or not ctx.harness.accept(ctx):
            return
        # one-step bisimulation on the edge that discovers obs.after
        ns = ctx.ns
        av = ctx.after_view
        taken = Counter()
        for c2 in self.bisim_harness.menu(av, _NullRes()):
            if taken[c2['kind']] >= self.per_kind:
                continue
            taken[c2['kind']] += 1
            m2 = self.bisim_harness.render(c2, av)
            live, e1 = target.parse(ns, ctx.before)
            msg1, e2 = target.parse(ns, ctx.msg)
            o1 = target.step_live(ns, live, msg1)
            if o1.after != obs.after:
                yield (f'{kind}:nondeterministic', f'{_case_str(ctx.case)}: re-execution gave a different result')
                return
            msg2, e3 = target.parse(ns, m2)
            if msg2 is None:
                continue
            o_live = target.step_live(ns, live, msg2)
            o_text, _, _ = target.step(ns, obs.after, m2)
            res.extra['bisimulation_steps'] += 1
            if (o_live.after, o_live.exc, o_live.warns) != (o_text.after, o_text.exc, o_text.warns):
                yield (f'{kind}:then:{c2["kind"]}:live-vs-reread-differ',
                       f'after {_case_str(ctx.case)}, {_case_str(c2)} gives exc={o_live.exc} warns={list(o_live.warns)} on the live object '
                       f'but exc={o_text.exc} warns={list(o_text.warns)} on the re-read serialisation'
                       + ('' if o_live.after == o_text.after else '; resulting documents differ'))
                return


class _NullRes:
    def __init__(self):
        self.disabled = Counter()


# ================================================================ C13
def _merge_direct(ns, ro, msg):
    """`msg.merge(ro)` - the documented method behind `ro + msg` - observed like step_live."""
    from . import target
    import warnings as _w
    o = target.Obs()
    try:
        o.before = str(ro)
    except Exception:  # noqa
        pass
    with _w.catch_warnings(record=True) as w:
        _w.simplefilter('always')
        try:
            msg.merge(ro)
        except Exception as e:  # noqa
            o.exc, o.exc_msg, o.phase = target.exc_name(ns, e), str(e), 'merge'
            o.merge_error = isinstance(e, ns.exc.MosMergeError)
    o.warns, o.other_warns = target.split_warnings(ns, w)
    try:
        o.after = str(ro)
    except Exception:  # noqa
        o.after = None
    return o


class Independence:
    """Three-step histories per message K and follow-up edit E (DESIGN C13)."""

    def __init__(self, followup_harness, per_kind=4, direct=False):
        self.fh = followup_harness
        self.per_kind = per_kind
        self.direct = direct      # merge through msg.merge(ro) instead of `ro + msg`

    def __call__(self, ctx, res):
        from . import target
        ns = ctx.ns
        s, K = ctx.before, ctx.msg
        kind = ctx.case['kind']
        if ctx.obs.phase in ('parse-ro', 'parse-msg') and ctx.obs.exc:
            return

        def P(t):
            o, e = target.parse(ns, t)
            if o is None:
                raise RuntimeError(f'harness: text does not parse: {e}')
            return o

        if self.direct:
            if ctx.view.completed:
                return      # the completed guard lives in `+`; a direct merge into a completed running order is outside the claim
            kind = 'direct-merge:' + kind

            def MERGE(ro_, msg_):
                return _merge_direct(ns, ro_, msg_)
        else:
            def MERGE(ro_, msg_):
                return target.step_live(ns, ro_, msg_)

        m = P(K)
        snap = str(m)
        ro1 = P(s)
        o1 = MERGE(ro1, m)
        res.extra['histories'] += 1
        if str(m) != snap:
            yield (f'{kind}:message-modified-by-merge',
                   f'{_case_str(ctx.case)}: str(msg) changed by its own merge: '
                   f'{tree.first_diff(tree.node(tree.read(snap)), tree.node(tree.read(str(m))))}')
            return
        # (b) same object into a second running order == fresh copy into it
        ro2, ro2f = P(s), P(s)
        ob = MERGE(ro2, m)
        of = MERGE(ro2f, P(K))
        if (ob.after, ob.exc, ob.warns) != (of.after, of.exc, of.warns):
            yield (f'{kind}:reuse-differs-from-fresh',
                   f'{_case_str(ctx.case)}: merging the same message object a second time gives exc={ob.exc} warns={list(ob.warns)}, '
                   f'a fresh copy gives exc={of.exc} warns={list(of.warns)}' + ('' if ob.after == of.after else '; documents differ'))
            return
        if o1.exc is not None or o1.after == o1.before:
            return
        # follow-up edits on ro1 after both ro1 and ro2 received m
        av = ctx.after_view
        if av is None or av.base is None:
            return
        taken = Counter()
        for E in self.fh.menu(av, _NullRes()):
            if taken[E['kind']] >= self.per_kind:
                continue
            etext = self.fh.render(E, av)
            eobj, err = target.parse(ns, etext)
            if eobj is None:
                continue
            m = P(K)
            snap = str(m)
            ro1, ro2 = P(s), P(s)
            MERGE(ro1, m)
            MERGE(ro2, m)
            snap2 = str(ro2)
            oe = target.step_live(ns, ro1, eobj)
            if oe.after == o1.after:
                continue   # the edit did nothing: uninformative
            taken[E['kind']] += 1
            res.extra['histories'] += 1
            res.by_class[f'{kind}>{E["kind"]}'] += 1
            if str(m) != snap:
                yield (f'{kind}:then:{E["kind"]}:message-modified-by-later-edit',
                       f'{_case_str(ctx.case)} then {_case_str(E)}: the earlier message object changed: '
                       f'{tree.first_diff(tree.node(tree.read(snap)), tree.node(tree.read(str(m))))}')
                return
            if str(ro2) != snap2:
                yield (f'{kind}:then:{E["kind"]}:running-orders-share-content',
                       f'{_case_str(ctx.case)} merged into two running orders, then {_case_str(E)} on the first changed the second: '
                       f'{tree.first_diff(tree.node(tree.read(snap2)), tree.node(tree.read(str(ro2))))}')
                return
            # (d) re-using m after the edit == fresh copy
            ro3, ro3f = P(s), P(s)
            o3 = MERGE(ro3, m)
            o3f = MERGE(ro3f, P(K))
            if (o3.after, o3.exc, o3.warns) != (o3f.after, o3f.exc, o3f.warns):
                yield (f'{kind}:then:{E["kind"]}:reuse-after-edit-differs',
                       f'{_case_str(ctx.case)} then {_case_str(E)}: merging the same message object again differs from a fresh copy')
                return
            # the message merged again into the edited running order itself
            ro1f = P(oe.after) if oe.after else None
            if ro1f is not None:
                o4 = MERGE(ro1, m)
                o4f = MERGE(ro1f, P(K))
                if (o4.after, o4.exc, o4.warns) != (o4f.after, o4f.exc, o4f.warns):
                    yield (f'{kind}:then:{E["kind"]}:remerge-into-same-differs',
                           f'{_case_str(ctx.case)} then {_case_str(E)} then the same message object again: differs from a fresh copy '
                           f'into the re-read running order (exc {o4.exc} vs {o4f.exc})')
                    return


# ================================================================ state monitors (C15 / C16 / C17)
import datetime as _dt
import io as _io
import contextlib as _ctxlib


class StateMonitor:
    """Checks an invariant on every expanded state and on every state discovered by a
    transition (so the last explored depth is covered too)."""
    _seen = None
    # every read accessor of the running order is read once BEFORE each merge, and the invariant is
    # then evaluated on the same live object AFTER it: an accessor that memoises is exposed
    touch_before = True

    def check(self, ns, text, view, res, ro=None):
        return ()

    def state(self, ns, h, text, view, res):
        if self._seen is None:
            self._seen = set()
        self._seen.add(hash(text))
        yield from self.check(ns, text, view, res)

    def __call__(self, ctx, res):
        obs = ctx.obs
        if obs.exc is not None or obs.after is None or not ctx.changed:
            return
        if self._seen is None:
            self._seen = set()
        h = hash(obs.after)
        if h in self._seen:
            return
        if len(self._seen) < 2000000:
            self._seen.add(h)
        av = ctx.after_view
        if av is None or av.base is None:
            return
        # preconditions of the accessor properties: stories have a storyID, items an itemID
        res.extra['states_checked_after_transition'] += 1
        for sig, detail in self.check(ctx.ns, obs.after, av, res, ro=ctx.ro_obj):
            yield (f'{ctx.case["kind"]}>' + sig, f'after {_case_str(ctx.case)} on {_fmt(ctx.view.story_ids)}: ' + detail)


def _blank_none(t):
    return None if t == '' else t


def _iso(t):
    return _dt.datetime.fromisoformat(t) if t else None


def _story_timing(se):
    """Independent reading of a <story>: (duration, explicit start, explicit end)."""
    mem = se.find('mosExternalMetadata')
    pl = mem.find('mosPayload') if mem is not None else None
    if pl is None:
        return None, None, None

    def num(tag):
        c = pl.find(tag)
        return float(c.text) if c is not None and c.text else None
    sd, tt, mt = num('StoryDuration'), num('TextTime'), num('MediaTime')
    if sd is not None:
        d = sd
    elif tt is not None or mt is not None:
        d = (tt or 0.0) + (mt or 0.0)
    else:
        d = None
    st = pl.find('StoryStarted')
    en = pl.find('StoryEnded')
    return d, _iso(st.text) if st is not None else None, _iso(en.text) if en is not None else None


def _call(fn):
    try:
        return fn(), None
    except Exception as e:  # noqa
        return None, e


def _accessor_summary(ro):
    """Every accessor value of a running order as plain data (exceptions as strings)."""
    def g(fn):
        try:
            v = fn()
        except Exception as e:  # noqa
            return 'EXC:' + type(e).__name__
        if isinstance(v, list):
            return tuple(x if isinstance(x, (str, int, float, type(None))) else ('item', getattr(x, 'id', None)) for x in v)
        return v
    out = [('ro.' + n, g(lambda n=n: getattr(ro, n))) for n in ('ro_slug', 'start_time', 'end_time', 'duration', 'completed', 'script',
                                                                 'body', 'message_id', 'ro_id')]
    try:
        stories = ro.stories
    except Exception as e:  # noqa
        return out + [('ro.stories', 'EXC:' + type(e).__name__)]
    for k, s in enumerate(stories):
        for n in ('id', 'slug', 'duration', 'offset', 'start_time', 'end_time', 'script', 'body'):
            out.append((f'story[{k}].{n}', g(lambda n=n: getattr(s, n))))
        out.append((f'story[{k}].items', g(lambda: [(i.id, i.slug, i.type, i.object_id, i.mos_id, i.note) for i in s.items])))
    return out


class Accessors(StateMonitor):
    """C15: read accessors never raise and agree with the XML."""

    def check(self, ns, text, view, res, ro=None):
        from . import target
        res.extra['states_checked'] += 1
        e = None
        if ro is None:
            ro, e = target.parse(ns, text)
        else:
            # the live object (whose accessors were all read once before the merge) must answer every
            # accessor exactly like a fresh read of its own serialisation: the values are a function of
            # the document, not of what was looked at earlier
            res.extra['live_objects_checked'] += 1
            fresh, e2 = target.parse(ns, text)
            if fresh is not None:
                a, b = _accessor_summary(ro), _accessor_summary(fresh)
                if a != b:
                    diff = [(x[0], x[1], y[1]) for x, y in zip(a, b) if x != y][:3] or [('length', len(a), len(b))]
                    yield (f'LIVE-vs-reread:{diff[0][0].split("[")[0].split(".")[0]}.{diff[0][0].split(".")[-1]}',
                           f'accessors of the live object disagree with a fresh read of its own serialisation: '
                           + '; '.join(f'{n}: live {x!r} vs re-read {y!r}' for n, x, y in diff))
        if ro is None:
            yield ('STATE:unreadable', f'state does not parse: {e}')
            return
        ncalls = 0
        for name in ('ro_slug', 'start_time', 'end_time', 'duration', 'completed', 'script', 'body', 'message_id',
                     'ro_id', 'base_tag', 'xml', 'dict', 'stories'):
            v, e = _call(lambda: getattr(ro, name))
            ncalls += 1
            if e is not None:
                yield (f'RunningOrder.{name}:raised:{type(e).__name__}',
                       f'ro.{name} raised {type(e).__name__}: {e} (stories {_fmt(view.story_ids)})')
                if name == 'stories':
                    return
        stories = ro.stories
        if [s.id for s in stories] != view.story_ids:
            yield ('RunningOrder.stories:ids-differ', f'ro.stories ids {[s.id for s in stories]} vs document {view.story_ids}')
            return
        ed = view.base.find('roEdStart')
        exp_start = _iso(ed.text) if ed is not None and ed.text else None
        if ro.start_time != exp_start:
            yield ('RunningOrder.start_time:value', f'ro.start_time {ro.start_time!r} vs roEdStart {exp_start!r}')
        if tree.child_text(view.base, 'roSlug') is not None and ro.ro_slug != _blank_none(tree.child_text(view.base, 'roSlug')):
            yield ('RunningOrder.ro_slug:value', f'ro.ro_slug {ro.ro_slug!r}')
        for s, sv in zip(stories, view.stories):
            for name in ('id', 'slug', 'items', 'duration', 'offset', 'start_time', 'end_time', 'script', 'body', 'xml'):
                v, e = _call(lambda: getattr(s, name))
                ncalls += 1
                if e is not None:
                    yield (f'Story.{name}:raised:{type(e).__name__}', f'story {sv.id}: .{name} raised {type(e).__name__}: {e}')
            exp_slug = _blank_none(tree.child_text(sv.elem, 'storySlug'))
            v, e = _call(lambda: s.slug)
            if e is None and v != exp_slug:
                yield ('Story.slug:value', f'story {sv.id}: slug {v!r} vs document {exp_slug!r}')
            d, st, en = _story_timing(sv.elem)
            v, e = _call(lambda: s.duration)
            if e is None and d is None and v is not None:
                yield ('Story.duration:not-none', f'story {sv.id}: no timing data but duration={v!r}')
            items, e = _call(lambda: s.items)
            if e is not None or items is None:
                if e is None:
                    yield ('Story.items:none', f'story {sv.id}: items is None')
                continue
            if [i.id for i in items] != sv.item_ids:
                yield ('Story.items:ids-differ', f'story {sv.id}: items {[i.id for i in items]} vs document {sv.item_ids}')
                continue
            for it, ie in zip(items, sv.items()):
                for name, tag in (('id', 'itemID'), ('slug', 'itemSlug'), ('type', 'objType'), ('object_id', 'objID'), ('mos_id', 'mosID')):
                    v, e = _call(lambda: getattr(it, name))
                    ncalls += 1
                    exp = _blank_none(tree.child_text(ie, tag))
                    if e is not None:
                        yield (f'Item.{name}:raised:{type(e).__name__}', f'item {it.id} of {sv.id}: .{name} raised {type(e).__name__}: {e}')
                    elif v != exp:
                        yield (f'Item.{name}:value', f'item {tree.child_text(ie, "itemID")} of {sv.id}: .{name}={v!r} vs document {exp!r}')
                v, e = _call(lambda: it.note)
                ncalls += 1
                exp = None
                n = ie.find("mosExternalMetadata/mosPayload//studioCommand[@type='note']/text")
                if n is not None:
                    exp = n.text
                if e is not None:
                    yield (f'Item.note:raised:{type(e).__name__}', f'item of {sv.id}: .note raised {type(e).__name__}: {e}')
                elif v != exp:
                    yield ('Item.note:value', f'item {tree.child_text(ie, "itemID")} of {sv.id}: note {v!r} vs document {exp!r}')
        res.extra['accessor_calls'] += ncalls


class Timing(StateMonitor):
    """C16: durations, offsets, start and end times."""

    def check(self, ns, text, view, res, ro=None):
        from . import target
        res.extra['states_checked'] += 1
        e = None
        if ro is None:
            ro, e = target.parse(ns, text)
        else:
            res.extra['live_objects_checked'] += 1
        if ro is None:
            yield ('STATE:unreadable', f'state does not parse: {e}')
            return
        stories, e = _call(lambda: ro.stories)
        if e is not None:
            return      # C15's business
        if [s.id or '' for s in stories] != [i or '' for i in view.story_ids]:      # (a blank ID is None in the library, '' in the view)
            return
        data = [_story_timing(sv.elem) for sv in view.stories]
        durs = [d for d, _, _ in data]
        # per-story duration: StoryDuration, else TextTime + MediaTime (missing one = 0)
        for s, sv, (d, st, en) in zip(stories, view.stories, data):
            v, e = _call(lambda: s.duration)
            if e is None and d is not None and v != d:
                # (a story without any timing data is C15's business: None there)
                yield ('Story.duration:value', f'story {sv.id}: duration {v!r}, recomputed {d!r}')
            # explicit times are returned as given, whatever the other stories carry
            if st is not None:
                v, e = _call(lambda: s.start_time)
                if e is None and v != st:
                    yield ('Story.start_time:value:explicit', f'story {sv.id}: start_time {v!r}, explicit StoryStarted {st!r}')
            if en is not None:
                v, e = _call(lambda: s.end_time)
                if e is None and v != en:
                    yield ('Story.end_time:value:explicit', f'story {sv.id}: end_time {v!r}, explicit StoryEnded {en!r}')
        if any(d is None for d in durs):
            res.extra['states_with_a_story_without_duration'] += 1
            return
        res.extra['states_with_all_durations'] += 1
        ed = view.base.find('roEdStart')
        ro_start = _iso(ed.text) if ed is not None and ed.text else None
        v, e = _call(lambda: ro.duration)
        exp = sum(durs) if durs else 0
        if e is None and durs and v != exp:
            yield ('RunningOrder.duration:value', f'ro.duration {v!r}, sum of story durations {exp!r} ({durs})')
        v, e = _call(lambda: ro.start_time)
        if e is None and v != ro_start:
            yield ('RunningOrder.start_time:value', f'ro.start_time {v!r} vs roEdStart {ro_start!r}')
        off = 0.0
        last_end = None
        for k, (s, sv, (d, st, en)) in enumerate(zip(stories, view.stories, data)):
            v, e = _call(lambda: s.offset)
            if e is None and v != off:
                yield ('Story.offset:value', f'story #{k} {sv.id}: offset {v!r}, sum of earlier durations {off!r} ({durs})')
            exp_start = st if st is not None else (ro_start + _dt.timedelta(seconds=off) if ro_start is not None else None)
            v, e = _call(lambda: s.start_time)
            if e is None and v != exp_start:
                yield ('Story.start_time:value' + (':explicit' if st else ':derived'),
                       f'story #{k} {sv.id}: start_time {v!r}, expected {exp_start!r}')
            exp_end = en if en is not None else (exp_start + _dt.timedelta(seconds=d) if exp_start is not None else None)
            v, e = _call(lambda: s.end_time)
            if e is None and v != exp_end:
                yield ('Story.end_time:value' + (':explicit' if en else ':derived'),
                       f'story #{k} {sv.id}: end_time {v!r}, expected {exp_end!r}')
            last_end = exp_end
            off += d
        v, e = _call(lambda: ro.end_time)
        if e is None and v != last_end:
            yield ('RunningOrder.end_time:value', f'ro.end_time {v!r}, last story ends {last_end!r}')


def _script_of(se):
    """-> list of (stripped text, status) for the direct <p> children, status in
    'in' (must be in the script) | 'either' (the statement does not decide).  Paragraphs that are
    empty / whitespace-only or unambiguously wrapped in one pair of round or angle brackets are left out."""
    out = []
    for c in se:
        if c.tag != 'p':
            continue
        t = c.text
        if t is None or t.strip() == '':
            continue
        st = t.strip()
        wrapped = (st[0] == '(' and st[-1] == ')') or (st[0] == '<' and st[-1] == '>')
        if not wrapped:
            out.append((st, 'in'))
            continue
        close = st[-1]
        # one pair around the whole text, given without padding: a technical note beyond doubt
        if close not in st[1:-1] and t == st:
            continue
        # '(a) and (b)' (several pairs) or '  (padded)  ' (padding outside the brackets): "wrapped in
        # brackets" can be read either way
        out.append((st, 'either'))
    return out


def _script_matches(got, want):
    """got: list of strings; want: list of (text, status) in order."""
    i = 0
    for text, status in want:
        if i < len(got) and got[i] == text:
            i += 1
        elif status == 'in':
            return False
    return i == len(got)


def _body_of(se):
    out = []
    for c in se:
        if c.tag == 'p':
            out.append(('p', c.text if c.text is not None else ''))
        elif c.tag == 'item':
            out.append(('item', tree.child_text(c, 'itemID')))
    return out


class ScriptBody(StateMonitor):
    """C17: script and body."""

    def check(self, ns, text, view, res, ro=None):
        from . import target
        res.extra['states_checked'] += 1
        e = None
        if ro is None:
            ro, e = target.parse(ns, text)
        else:
            res.extra['live_objects_checked'] += 1
        if ro is None:
            yield ('STATE:unreadable', f'state does not parse: {e}')
            return
        stories, e = _call(lambda: ro.stories)
        if e is not None or [s.id for s in stories] != view.story_ids:
            return      # C15's business
        # paragraphs with inline child elements are outside the claim
        if any(len(k[2]) for sv in view.stories for k in sv.kids if k[0] == 'p'):
            res.extra['states_skipped_inline_markup'] += 1
            return
        all_script, all_body = [], []
        for s, sv in zip(stories, view.stories):
            es, eb = _script_of(sv.elem), _body_of(sv.elem)
            all_script += es
            all_body += eb
            v, e = _call(lambda: s.script)
            if e is not None:
                yield (f'Story.script:raised:{type(e).__name__}', f'story {sv.id}: script raised {type(e).__name__}: {e}')
            elif not _script_matches(list(v), es):
                yield ('Story.script:value', f'story {sv.id}: script {v!r}, derived from the document {es!r}')
            v, e = _call(lambda: s.body)
            if e is not None:
                yield (f'Story.body:raised:{type(e).__name__}', f'story {sv.id}: body raised {type(e).__name__}: {e}')
            else:
                got = [('p', x) if isinstance(x, str) else ('item', getattr(x, 'id', None)) for x in v]
                if got != eb:
                    yield ('Story.body:value', f'story {sv.id}: body {got!r}, derived from the document {eb!r}')
        v, e = _call(lambda: ro.script)
        if e is not None:
            yield (f'RunningOrder.script:raised:{type(e).__name__}', f'ro.script raised {type(e).__name__}: {e}')
        elif not _script_matches(list(v), all_script):
            yield ('RunningOrder.script:value', f'ro.script {v!r}, concatenation of the stories {all_script!r}')
        v, e = _call(lambda: ro.body)
        if e is not None:
            yield (f'RunningOrder.body:raised:{type(e).__name__}', f'ro.body raised {type(e).__name__}: {e}')
        else:
            got = [('p', x) if isinstance(x, str) else ('item', getattr(x, 'id', None)) for x in v]
            if got != all_body:
                yield ('RunningOrder.body:value', f'ro.body {got!r}, concatenation of the stories {all_body!r}')
        if all_script:
            res.extra['states_with_script'] += 1


# ================================================================ live two-step histories
class LiveSecondStep:
    """Runs the wrapped monitors on the SECOND message of two-message histories executed on one live
    object (no re-read in between): state s --c1--> live object --c2--> checked.  The text-state graph
    re-reads the serialisation before every step; this wrapper covers what only shows on an object
    that has already been through a merge (stale caches, shared elements)."""

    def __init__(self, inner, second_harness, first_per_kind=2):
        self.inner = inner
        self.second = second_harness
        self.first_per_kind = first_per_kind
        self._count = Counter()
        self.touch_before = any(getattr(m, 'touch_before', False) for m in inner)

    def __call__(self, ctx, res):
        from . import target
        from .explore import Ctx
        obs = ctx.obs
        kind = ctx.case['kind']
        if obs.exc is not None or obs.after is None or not ctx.changed:
            return
        key = (hash(ctx.before), kind)
        if self._count[key] >= self.first_per_kind:
            return
        self._count[key] += 1
        av = ctx.after_view
        if av is None or av.base is None:
            return
        ns = ctx.ns
        for c2 in self.second.menu(av, _NullRes()):
            m2 = self.second.render(c2, av)
            live, _ = target.parse(ns, ctx.before)
            m1, _ = target.parse(ns, ctx.msg)
            o1 = target.step_live(ns, live, m1)
            if o1.after != obs.after:
                yield (f'after-{kind}>nondeterministic', f'{_case_str(ctx.case)}: re-execution gave a different result')
                return
            mobj2, e = target.parse(ns, m2)
            if mobj2 is None:
                continue
            o2 = target.step_live(ns, live, mobj2)
            ctx2 = Ctx(ns, self.second, obs.after, av, c2, m2, o2)
            ctx2.ro_obj, ctx2.msg_obj = live, mobj2
            res.extra['live_second_steps'] += 1
            for mon in self.inner:
                for sig, detail in mon(ctx2, res):
                    yield (f'after-{kind}>{sig}', f'on the live object that just merged {_case_str(ctx.case)}: {detail}')
                    return


class LiveThirdStep:
    """Runs the wrapped monitors on the THIRD message of three-message histories executed on one live
    object: state s --c1--> live --c2--> live --c3--> checked.  c1: up to `first_per_kind` changing
    messages per class and state (the transitions the explorer executes anyway); c2: up to
    `second_per_kind` changing messages per class; c3: every message of c1's class plus `third_per_kind` messages
    of every other class, spread evenly over the menu of the state reached (None = the whole menu).  Covers what needs two earlier merges on
    the same object to show: a cache filled by the first message and made stale by the second."""

    def __init__(self, inner, second_harness, third_harness, first_per_kind=1, second_per_kind=1, third_per_kind=4,
                 slices=None):
        # slices: {canonical state text: (i, n)} - in that state only first messages of the classes whose index in
        # spec.ALL_KINDS is i modulo n start a history (spreads the work of few initial shapes over more states,
        # which is the unit the explorer distributes over its workers)
        self.slices = slices
        self.inner = inner
        self.second = second_harness
        self.third = third_harness
        self.first_per_kind = first_per_kind
        self.second_per_kind = second_per_kind
        self.third_per_kind = third_per_kind
        self._count = Counter()
        self._seen = Counter()
        self._plans = {}
        self.touch_before = any(getattr(m, 'touch_before', False) for m in inner)

    def _spread(self, cases, first_kind=None):
        """Third messages: every case of the class of the FIRST message (what a first message caches, a later message of
        the same class is the one to read back) and `third_per_kind` cases of every other class, spread evenly."""
        if self.third_per_kind is None:
            return cases
        by = {}
        for c in cases:
            by.setdefault(c['kind'], []).append(c)
        out = []
        for k, cs in by.items():
            n = self.third_per_kind
            if len(cs) <= n or k == first_kind:
                out.extend(cs)
            else:
                idx = sorted({round(i * (len(cs) - 1) / (n - 1)) for i in range(n)}) if n > 1 else [0]
                out.extend(cs[i] for i in idx)
        return out

    def __call__(self, ctx, res):
        from . import target, tree
        from .explore import Ctx
        obs = ctx.obs
        kind = ctx.case['kind']
        if self.slices is not None:
            from . import spec
            sl = self.slices.get(ctx.before)
            if sl is not None and kind in spec.ALL_KINDS and list(spec.ALL_KINDS).index(kind) % sl[1] != sl[0]:
                return
        # first messages are spread over the menu of the state: per class the candidates at positions 0, (n-1)//2, ... of
        # the class's cases (the next changing one if that one changes nothing), not simply the first ones
        key = (hash(ctx.before), kind)
        plan = self._plans.get(hash(ctx.before))
        if plan is None:
            counts = Counter(c['kind'] for c in ctx.harness.menu(ctx.view, _NullRes()))
            plan = {}
            for k_, n_ in counts.items():
                f = self.first_per_kind
                plan[k_] = sorted({(j * (n_ - 1)) // f for j in range(f)})
            self._plans[hash(ctx.before)] = plan
        self._seen[key] += 1
        idx = self._seen[key] - 1
        if obs.exc is not None or obs.after is None or not ctx.changed:
            return
        wanted = plan.get(kind, [0])
        done = self._count[key]
        if done >= len(wanted) or idx < wanted[done]:
            return
        self._count[key] += 1
        av = ctx.after_view
        if av is None or av.base is None:
            return
        ns = ctx.ns

        def replay(texts):
            live, _ = target.parse(ns, ctx.before)
            outs = []
            for t in texts:
                m, _e = target.parse(ns, t)
                if m is None:
                    return live, outs, None
                if self.touch_before:
                    target.touch(live)
                outs.append(target.step_live(ns, live, m))
            return live, outs, m

        taken = Counter()
        for c2 in self.second.menu(av, _NullRes()):
            k2 = c2['kind']
            if taken[k2] >= self.second_per_kind:
                continue
            m2 = self.second.render(c2, av)
            live, outs, _m = replay([ctx.msg, m2])
            if len(outs) < 2:
                continue
            if outs[0].after != obs.after:
                yield (f'after-{kind}>nondeterministic', f'{_case_str(ctx.case)}: re-execution gave a different result')
                return
            o2 = outs[1]
            if o2.exc is not None or o2.after is None or o2.after == o2.before:
                continue
            taken[k2] += 1
            try:
                av2 = tree.RoView(o2.after)
            except Exception:  # noqa
                continue
            if av2.base is None:
                continue
            for c3 in self._spread(list(self.third.menu(av2, _NullRes())), kind):
                m3 = self.third.render(c3, av2)
                live, outs, mobj3 = replay([ctx.msg, m2, m3])
                if len(outs) < 3:
                    continue
                if outs[1].after != o2.after:
                    yield (f'after-{kind}+{k2}>nondeterministic', 're-execution of a two-message history gave a different result')
                    return
                o3 = outs[2]
                ctx3 = Ctx(ns, self.third, o2.after, av2, c3, m3, o3)
                ctx3.ro_obj, ctx3.msg_obj = live, mobj3
                res.extra['live_third_steps'] += 1
                for mon in self.inner:
                    for sig, detail in mon(ctx3, res):
                        yield (f'after-{kind}+{k2}>{sig}',
                               f'on the live object that just merged {_case_str(ctx.case)} and then {_case_str(c2)}: {detail}')
                        return
