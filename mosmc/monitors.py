"""Per-property monitors over executed transitions.  Each monitor is a callable
mon(ctx, res) -> iterable of (signature, detail); it must demand exactly what its
property states and nothing more (DESIGN 2.2 / 3)."""
from collections import Counter

from . import spec, seqref, tree
from .gen import BLANK, ABSENT, ref_name

END = seqref.END


def _fmt(seq):
    return '[' + ','.join('∅' if x is None else (x or "''") for x in seq) + ']' if seq is not None else 'None'


def _case_str(case):
    parts = []
    for k, v in case.items():
        if k == 'kind':
            continue
        if isinstance(v, tuple):
            v = '(' + ','.join(ref_name(x) if isinstance(x, str) else
                               (ref_name(x[0]) + ('' if not x[1] else "'")) for x in v) + ')'
        elif isinstance(v, str):
            v = ref_name(v)
        parts.append(f'{k}={v}')
    return case['kind'] + ' ' + ' '.join(parts)


def _seq_dev(before, after, expected):
    if after is None:
        return 'container-lost'
    if list(after) == list(before):
        return 'unchanged'
    ca, ce = Counter(after), Counter(expected)
    if ca == ce:
        return 'misordered'
    lost = ce - ca
    gained = ca - ce
    if lost and gained:
        return 'lost+gained'
    return 'lost' if lost else 'gained'


def _lenient_packing(case):
    # several <element_source> tags are outside the MOS DTD (one element_source holding all IDs):
    # exact semantics are only demanded of the schema form
    return case.get('packing', 'one') != 'one'


# ================================================================ C01 / C02
class OrderMonitor:
    """Sequence of story IDs (level='story') / item IDs of the addressed story (level='item')."""

    def __init__(self, level):
        self.level = level

    def __call__(self, ctx, res):
        if ctx.level != self.level:
            return
        e = ctx.exp
        case = ctx.case
        kind = case['kind']
        before = ctx.seq_before
        obs = ctx.obs
        if obs.phase in ('parse-ro', 'parse-msg'):
            if e.schema and e.resolves:
                yield (f'{kind}:{e.note}:unparsed:{obs.exc}', f'{_case_str(case)}: {obs.phase} failed with {obs.exc}: {obs.exc_msg}')
            return
        after = ctx.seq_after
        # moves and swaps never add or lose an element, whatever the input
        if kind in spec.MOVE_KINDS and before is not None:
            res.extra['multiset_checked'] += 1
            if after is None or sorted(after) != sorted(before):
                yield (f'{kind}:{e.note}:multiset-changed',
                       f'{_case_str(case)} on {_fmt(before)} -> {_fmt(after)} (exc={obs.exc}): a move/swap added or lost an element')
                return
        if not e.schema or not e.resolves or _lenient_packing(case):
            res.extra['not_fully_resolved_cases'] += 1
            return
        res.extra['resolved_cases'] += 1
        res.by_class[f'{kind}:{e.note}'] += 1
        if list(e.alts[0]) != list(before):
            res.extra['resolved_cases_expecting_change'] += 1
        if obs.exc is not None:
            if ctx.merge_error and e.may_raise:
                return
            yield (f'{kind}:{e.note}:raised:{obs.exc}',
                   f'{_case_str(case)} on {_fmt(before)}: all references resolve but the merge raised {obs.exc}: {obs.exc_msg}')
            return
        if after is None or tuple(after) not in e.alts:
            dev = _seq_dev(before, after, e.alts[0])
            yield (f'{kind}:{e.note}:{dev}',
                   f'{_case_str(case)} on {_fmt(before)}: expected {_fmt(e.alts[0])} got {_fmt(after)}')


# ================================================================ C05
def mon_unchanged_on_raise(ctx, res):
    obs = ctx.obs
    if obs.exc is None or obs.phase != 'merge':
        return
    res.extra['raising_transitions'] += 1
    e = ctx.exp
    note = e.note if e is not None else ''
    res.by_class[f"{ctx.case['kind']}:{note}:{obs.exc}"] += 1
    if obs.after != ctx.before:
        d = None
        try:
            d = tree.first_diff(tree.node(tree.read(ctx.before)), tree.node(tree.read(obs.after)))
        except Exception as ex:  # noqa
            d = f'unreadable after state: {ex}'
        yield (f"{ctx.case['kind']}:{note}:mutated-before-raise:{obs.exc}",
               f"{_case_str(ctx.case)} raised {obs.exc} ({obs.exc_msg}) but the running order changed: "
               f"{_fmt(ctx.seq_before)} -> {_fmt(ctx.seq_after)}; first difference {d}")


# ================================================================ C12
def mon_library_exceptions(ctx, res):
    obs = ctx.obs
    e = ctx.exp
    if e is not None and not e.schema:
        res.extra['not_schema_shaped'] += 1
        return
    res.extra['schema_shaped'] += 1
    if obs.exc is None:
        return
    note = e.note if e is not None else ''
    res.by_class[f"{ctx.case['kind']}:{obs.exc}"] += 1
    if obs.exc.startswith('BUILTIN:'):
        yield (f"{ctx.case['kind']}:{note}:{obs.phase}:{obs.exc}",
               f"{_case_str(ctx.case)} on stories {_fmt(ctx.view.story_ids)}: {obs.phase} raised {obs.exc[8:]}: {obs.exc_msg}")
    elif obs.phase == 'merge' and not ctx.merge_error:
        yield (f"{ctx.case['kind']}:{note}:merge-raised-non-merge-error:{obs.exc}",
               f"{_case_str(ctx.case)}: `+` raised {obs.exc}, which is not a MosMergeError")


# ================================================================ C06
def _pos_sig(seq, s, named):
    i = list(seq).index(s)
    return frozenset(x for x in seq[:i] if x not in named)


def mon_nothing_skipped(ctx, res):
    if ctx.level not in ('story', 'item'):
        return
    e = ctx.exp
    case = ctx.case
    kind = case['kind']
    obs = ctx.obs
    if not e.schema or _lenient_packing(case):
        return
    if obs.phase != 'merge' and obs.exc is not None:
        return
    if obs.exc is not None:
        # a raise is an allowed signal (builtin exceptions are C12's business, a raise on a
        # fully applicable message is C01/C02's)
        return
    before, after = ctx.seq_before, ctx.seq_after
    W = Counter(obs.warns)
    owed, opt = e.owed, e.optional
    res.by_class[f'{kind}:{e.note}'] += 1
    if e.must_signal:
        res.extra['cases_with_unresolvable_or_duplicate'] += 1
    else:
        res.extra['fully_applicable_cases'] += 1
    cats = set(W) | set(owed)
    for c in sorted(cats):
        lo, hi = owed.get(c, 0), owed.get(c, 0) + opt.get(c, 0)
        if W.get(c, 0) < lo:
            yield (f'{kind}:{e.note}:silent:{c}',
                   f'{_case_str(case)} on {_fmt(before)}: {lo} x {c} owed (or MosMergeError), {W.get(c, 0)} emitted, no exception; result {_fmt(after)}')
        elif W.get(c, 0) > hi:
            what = 'spurious' if not e.must_signal else 'excess'
            yield (f'{kind}:{e.note}:{what}:{c}',
                   f'{_case_str(case)} on {_fmt(before)}: at most {hi} x {c} expected, {W.get(c, 0)} emitted')
    if after is None or before is None:
        return
    acted = list(e.acted)
    if not acted:
        return
    res.extra['acted_upon_checks'] += 1
    if e.op == 'delete':
        left = [s for s in acted if s in after]
        if left:
            yield (f'{kind}:{e.note}:named-not-deleted',
                   f'{_case_str(case)} on {_fmt(before)}: {left} listed and present but still there: {_fmt(after)}; warnings {list(obs.warns)}')
    elif e.op in ('insert', 'append', 'replace'):
        if e.target[0] in ('unres',):
            return
        missing = [s for s in acted if after.count(s) != 1]
        if missing:
            yield (f'{kind}:{e.note}:carried-not-applied',
                   f'{_case_str(case)} on {_fmt(before)}: carried {missing} not present exactly once afterwards: {_fmt(after)}; warnings {list(obs.warns)}')
    elif e.op == 'move' and e.defined and e.target[0] in ('at', 'end'):
        tgt = e.target[1] if e.target[0] == 'at' else END
        if sorted(after) != sorted(before):
            return
        expected = seqref.move_before(before, acted, tgt)
        ignored = []
        for s in acted:
            o, x, a = _pos_sig(before, s, acted), _pos_sig(expected, s, acted), _pos_sig(after, s, acted)
            if x != o and a == o:
                ignored.append(s)
        if ignored:
            yield (f'{kind}:{e.note}:source-ignored',
                   f'{_case_str(case)} on {_fmt(before)}: listed {ignored} stayed where they were with no signal: {_fmt(after)} (protocol: {_fmt(expected)})')
    elif e.op == 'swap' and e.resolves:
        if list(after) == list(before):
            yield (f'{kind}:{e.note}:swap-ignored',
                   f'{_case_str(case)} on {_fmt(before)}: nothing happened and nothing was reported')


# ================================================================ C03
def _frame(elem, drop):
    """Node tuple of elem with the elements whose id() is in `drop` (and their tails) removed."""
    kids = tuple(_frame(c, drop) for c in elem if id(c) not in drop)
    return (elem.tag, tuple(sorted(elem.attrib.items())), tree._norm(elem.text), tree._norm(elem.tail), kids)


def _ids_eq(sv_list, ids):
    return [s for s in sv_list if s.id is not None and s.id != '' and s.id in ids]


def _named_sets(ctx):
    """-> (drop_before, drop_after, moved_pairs) as sets of id(element) in the before / after
    trees, per DESIGN Appendix A; moved_pairs = [(label, elem_before, elem_after)] for elements
    that may change position but not content."""
    from .harnesses import meta_key_of, meta_key_tuple
    case = ctx.case
    kind = case['kind']
    bv, av = ctx.view, ctx.after_view
    db, da, moved = set(), set(), []

    def real(ids):
        return {i for i in ids if i not in (BLANK, ABSENT)}

    if ctx.level == 'story':
        before_ids = set(bv.story_ids)
        named, carried, movers = set(), set(), set()
        if kind in ('StoryAppend', 'StoryInsert', 'EAStoryInsert'):
            carried = {p[0] for p in case['payload']} - before_ids
        elif kind in ('StoryReplace', 'EAStoryReplace'):
            if case['tgt'] in before_ids:
                named = {case['tgt']}
                carried = {p[0] for p in case['payload']}
        elif kind == 'StorySend':
            if case['sid'] in before_ids:
                named = carried = {case['sid']}
        elif kind in ('StoryDelete', 'EAStoryDelete'):
            named = real(case['srcs']) & before_ids
        elif kind == 'StoryMove':
            movers = real([case['src']]) & before_ids
        elif kind in ('EAStoryMove', 'EAStorySwap'):
            movers = real(case['srcs']) & before_ids
        for s in bv.stories:
            if s.id in named or s.id in movers:
                db.add(id(s.elem))
        for s in av.stories:
            if s.id in named or s.id in carried or s.id in movers:
                da.add(id(s.elem))
        for m in sorted(movers):
            b, a = bv.story(m), av.story(m)
            if b is not None and a is not None:
                moved.append((f'story {m}', b.elem, a.elem))
            elif b is not None:
                moved.append((f'story {m}', b.elem, None))
    elif ctx.level == 'item':
        sb = ctx.addressed
        if sb is not None:
            sa = av.story(sb.id)
            before_ids = set(sb.item_ids)
            named, carried, movers = set(), set(), set()
            if kind in ('ItemInsert', 'EAItemInsert'):
                carried = {p[0] for p in case['payload']}
            elif kind in ('ItemReplace', 'EAItemReplace'):
                if case['tgt'] in before_ids:
                    named = {case['tgt']}
                    carried = {p[0] for p in case['payload']}
            elif kind in ('ItemDelete', 'EAItemDelete'):
                named = real(case['srcs']) & before_ids
            elif kind in ('ItemMoveMultiple', 'EAItemMove', 'EAItemSwap'):
                movers = real(case['srcs']) & before_ids
            for k in sb.kids:
                if k[0] == 'item' and (k[1] in named or k[1] in movers):
                    db.add(id(k[2]))
            if sa is not None:
                for k in sa.kids:
                    if k[0] == 'item' and (k[1] in named or k[1] in carried or k[1] in movers):
                        da.add(id(k[2]))
                for m in sorted(movers):
                    b = [k[2] for k in sb.kids if k[0] == 'item' and k[1] == m]
                    a = [k[2] for k in sa.kids if k[0] == 'item' and k[1] == m]
                    if b:
                        moved.append((f'item {m} of story {sb.id}', b[0], a[0] if a else None))
    else:
        if kind == 'MetaDataReplace':
            keys = {meta_key_tuple(k) for k in case['elems']}
            for _, c in bv.meta:
                if meta_key_of(c) in keys:
                    db.add(id(c))
            for _, c in av.meta:
                if meta_key_of(c) in keys:
                    da.add(id(c))
        elif kind == 'RunningOrderReplace':
            for c in bv.root:
                if c.tag == 'roCreate':
                    db.add(id(c))
            for c in av.root:
                if c.tag == 'roCreate':
                    da.add(id(c))
        elif kind == 'RunningOrderEnd':
            for c in av.root:
                if c.tag == 'mosromgrmeta':
                    da.add(id(c))
    return db, da, moved


def mon_frame(ctx, res):
    obs = ctx.obs
    if obs.phase in ('parse-ro', 'parse-msg') and obs.exc:
        return
    av = ctx.after_view
    case = ctx.case
    kind = case['kind']
    e = ctx.exp
    note = e.note if e is not None else ''
    if av is None or av.base is None:
        yield (f'{kind}:{note}:unreadable-after', f'{_case_str(case)}: running order unreadable / without roCreate after the merge')
        return
    db, da, moved = _named_sets(ctx)
    fb = _frame(ctx.view.root, db)
    fa = _frame(av.root, da)
    res.extra['frames_compared'] += 1
    if db or da:
        res.extra['frames_with_named_elements'] += 1
    else:
        res.extra['frames_with_nothing_named'] += 1
    res.by_class[f'{kind}:{note}'] += 1
    if fb != fa:
        d = tree.first_diff(fb, fa)
        what = 'nothing-named' if not db and not da else 'named'
        yield (f'{kind}:{note}:collateral:{what}',
               f'{_case_str(case)} on stories {_fmt(ctx.view.story_ids)}: an element the message does not name changed: {d}'
               f' (story IDs after: {_fmt(av.story_ids)}; exc={obs.exc})')
        return
    for label, b, a in moved:
        if a is None:
            continue  # a lost element is C01/C02's (multiset) business
        nb, na = tree.strip_tail(tree.node(b)), tree.strip_tail(tree.node(a))
        if nb != na:
            yield (f'{kind}:{note}:moved-element-modified',
                   f'{_case_str(case)}: {label} may only change position but its content changed: {tree.first_diff(nb, na)}')
            return
