"""Per-property monitors over executed transitions.  Each monitor is a callable
mon(ctx, res) -> iterable of (signature, detail); it must demand exactly what its
property states and nothing more (DESIGN 2.2 / 3)."""
from collections import Counter

from . import spec, seqref, tree
from .gen import BLANK, ABSENT, ref_name

END = seqref.END


def _fmt(seq):
    return '[' + ','.join('∅' if x is None else (x or "''") for x in seq) + ']' if seq is not None else 'None'


def _case_str(case):
    parts = []
    for k, v in case.items():
        if k == 'kind':
            continue
        if isinstance(v, tuple):
            v = '(' + ','.join(ref_name(x) if isinstance(x, str) else
                               (ref_name(x[0]) + ('' if not x[1] else "'")) for x in v) + ')'
        elif isinstance(v, str):
            v = ref_name(v)
        parts.append(f'{k}={v}')
    return case['kind'] + ' ' + ' '.join(parts)


def _seq_dev(before, after, expected):
    if after is None:
        return 'container-lost'
    if list(after) == list(before):
        return 'unchanged'
    ca, ce = Counter(after), Counter(expected)
    if ca == ce:
        return 'misordered'
    lost = ce - ca
    gained = ca - ce
    if lost and gained:
        return 'lost+gained'
    return 'lost' if lost else 'gained'


def _lenient_packing(case):
    # several <element_source> tags are outside the MOS DTD (one element_source holding all IDs):
    # exact semantics are only demanded of the schema form
    return case.get('packing', 'one') != 'one'


# ================================================================ C01 / C02
class OrderMonitor:
    """Sequence of story IDs (level='story') / item IDs of the addressed story (level='item')."""

    def __init__(self, level):
        self.level = level

    def __call__(self, ctx, res):
        if ctx.level != self.level:
            return
        e = ctx.exp
        case = ctx.case
        kind = case['kind']
        before = ctx.seq_before
        obs = ctx.obs
        if obs.phase in ('parse-ro', 'parse-msg'):
            if e.schema and e.resolves:
                yield (f'{kind}:{e.note}:unparsed:{obs.exc}', f'{_case_str(case)}: {obs.phase} failed with {obs.exc}: {obs.exc_msg}')
            return
        after = ctx.seq_after
        # moves and swaps never add or lose an element, whatever the input
        if kind in spec.MOVE_KINDS and before is not None:
            res.extra['multiset_checked'] += 1
            if after is None or sorted(after) != sorted(before):
                yield (f'{kind}:{e.note}:multiset-changed',
                       f'{_case_str(case)} on {_fmt(before)} -> {_fmt(after)} (exc={obs.exc}): a move/swap added or lost an element')
                return
        if not e.schema or not e.resolves or _lenient_packing(case):
            res.extra['not_fully_resolved_cases'] += 1
            return
        res.extra['resolved_cases'] += 1
        res.by_class[f'{kind}:{e.note}'] += 1
        if list(e.alts[0]) != list(before):
            res.extra['resolved_cases_expecting_change'] += 1
        if obs.exc is not None:
            if ctx.merge_error and e.may_raise:
                return
            yield (f'{kind}:{e.note}:raised:{obs.exc}',
                   f'{_case_str(case)} on {_fmt(before)}: all references resolve but the merge raised {obs.exc}: {obs.exc_msg}')
            return
        if after is None or tuple(after) not in e.alts:
            dev = _seq_dev(before, after, e.alts[0])
            yield (f'{kind}:{e.note}:{dev}',
                   f'{_case_str(case)} on {_fmt(before)}: expected {_fmt(e.alts[0])} got {_fmt(after)}')


# ================================================================ C05
def mon_unchanged_on_raise(ctx, res):
    obs = ctx.obs
    if obs.exc is None or obs.phase != 'merge':
        return
    res.extra['raising_transitions'] += 1
    e = ctx.exp
    note = e.note if e is not None else ''
    res.by_class[f"{ctx.case['kind']}:{note}:{obs.exc}"] += 1
    if obs.after != ctx.before:
        d = None
        try:
            d = tree.first_diff(tree.node(tree.read(ctx.before)), tree.node(tree.read(obs.after)))
        except Exception as ex:  # noqa
            d = f'unreadable after state: {ex}'
        yield (f"{ctx.case['kind']}:{note}:mutated-before-raise:{obs.exc}",
               f"{_case_str(ctx.case)} raised {obs.exc} ({obs.exc_msg}) but the running order changed: "
               f"{_fmt(ctx.seq_before)} -> {_fmt(ctx.seq_after)}; first difference {d}")


# ================================================================ C12
def mon_library_exceptions(ctx, res):
    obs = ctx.obs
    e = ctx.exp
    if e is not None and not e.schema:
        res.extra['not_schema_shaped'] += 1
        return
    res.extra['schema_shaped'] += 1
    if obs.exc is None:
        return
    note = e.note if e is not None else ''
    res.by_class[f"{ctx.case['kind']}:{obs.exc}"] += 1
    if obs.exc.startswith('BUILTIN:'):
        yield (f"{ctx.case['kind']}:{note}:{obs.phase}:{obs.exc}",
               f"{_case_str(ctx.case)} on stories {_fmt(ctx.view.story_ids)}: {obs.phase} raised {obs.exc[8:]}: {obs.exc_msg}")
    elif obs.phase == 'merge' and not ctx.merge_error:
        yield (f"{ctx.case['kind']}:{note}:merge-raised-non-merge-error:{obs.exc}",
               f"{_case_str(ctx.case)}: `+` raised {obs.exc}, which is not a MosMergeError")


# ================================================================ C06
def _pos_sig(seq, s, named):
    i = list(seq).index(s)
    return frozenset(x for x in seq[:i] if x not in named)


def mon_nothing_skipped(ctx, res):
    if ctx.level not in ('story', 'item'):
        return
    e = ctx.exp
    case = ctx.case
    kind = case['kind']
    obs = ctx.obs
    if not e.schema or _lenient_packing(case):
        return
    if obs.phase != 'merge' and obs.exc is not None:
        return
    if obs.exc is not None:
        # a raise is an allowed signal (builtin exceptions are C12's business, a raise on a
        # fully applicable message is C01/C02's)
        return
    before, after = ctx.seq_before, ctx.seq_after
    W = Counter(obs.warns)
    owed, opt = e.owed, e.optional
    res.by_class[f'{kind}:{e.note}'] += 1
    if e.must_signal:
        res.extra['cases_with_unresolvable_or_duplicate'] += 1
    else:
        res.extra['fully_applicable_cases'] += 1
    cats = set(W) | set(owed)
    for c in sorted(cats):
        lo, hi = owed.get(c, 0), owed.get(c, 0) + opt.get(c, 0)
        if W.get(c, 0) < lo:
            yield (f'{kind}:{e.note}:silent:{c}',
                   f'{_case_str(case)} on {_fmt(before)}: {lo} x {c} owed (or MosMergeError), {W.get(c, 0)} emitted, no exception; result {_fmt(after)}')
        elif W.get(c, 0) > hi:
            what = 'spurious' if not e.must_signal else 'excess'
            yield (f'{kind}:{e.note}:{what}:{c}',
                   f'{_case_str(case)} on {_fmt(before)}: at most {hi} x {c} expected, {W.get(c, 0)} emitted')
    if after is None or before is None:
        return
    acted = list(e.acted)
    if not acted:
        return
    res.extra['acted_upon_checks'] += 1
    if e.op == 'delete':
        left = [s for s in acted if s in after]
        if left:
            yield (f'{kind}:{e.note}:named-not-deleted',
                   f'{_case_str(case)} on {_fmt(before)}: {left} listed and present but still there: {_fmt(after)}; warnings {list(obs.warns)}')
    elif e.op in ('insert', 'append', 'replace'):
        if e.target[0] in ('unres',):
            return
        missing = [s for s in acted if after.count(s) != 1]
        if missing:
            yield (f'{kind}:{e.note}:carried-not-applied',
                   f'{_case_str(case)} on {_fmt(before)}: carried {missing} not present exactly once afterwards: {_fmt(after)}; warnings {list(obs.warns)}')
    elif e.op == 'move' and e.defined and e.target[0] in ('at', 'end'):
        tgt = e.target[1] if e.target[0] == 'at' else END
        if sorted(after) != sorted(before):
            return
        expected = seqref.move_before(before, acted, tgt)
        ignored = []
        for s in acted:
            o, x, a = _pos_sig(before, s, acted), _pos_sig(expected, s, acted), _pos_sig(after, s, acted)
            if x != o and a == o:
                ignored.append(s)
        if ignored:
            yield (f'{kind}:{e.note}:source-ignored',
                   f'{_case_str(case)} on {_fmt(before)}: listed {ignored} stayed where they were with no signal: {_fmt(after)} (protocol: {_fmt(expected)})')
    elif e.op == 'swap' and e.resolves:
        if list(after) == list(before):
            yield (f'{kind}:{e.note}:swap-ignored',
                   f'{_case_str(case)} on {_fmt(before)}: nothing happened and nothing was reported')
