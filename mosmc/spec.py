"""Reference semantics per message kind (DESIGN section 3).

exp_list(seq, case) interprets an abstract case against a plain list of IDs (story IDs of
the running order, or item IDs of the addressed story) and returns an Exp describing
 * whether the case is fully resolved and defined (then `alts` is the exact set of allowed
   resulting sequences, in practice one);
 * which named elements are unresolvable / duplicates (one report each is owed: C06);
 * which elements are resolvable and therefore must be acted upon.
Where neither the property nor the repository defines the behaviour the Exp says
`defined=False` and the monitors only apply the weaker obligations (frame, multiset,
all-or-nothing on error, library exception types).
"""
from collections import Counter
from . import seqref
from .gen import BLANK, ABSENT

END = seqref.END

STORY_NF = 'StoryNotFoundWarning'
ITEM_NF = 'ItemNotFoundWarning'
DUP = 'DuplicateStoryWarning'

STORY_KINDS = ('StoryAppend', 'StoryInsert', 'StoryReplace', 'StoryMove', 'StoryDelete', 'StorySend',
               'EAStoryInsert', 'EAStoryReplace', 'EAStoryMove', 'EAStoryDelete', 'EAStorySwap')
ITEM_KINDS = ('ItemInsert', 'ItemReplace', 'ItemMoveMultiple', 'ItemDelete',
              'EAItemInsert', 'EAItemReplace', 'EAItemMove', 'EAItemDelete', 'EAItemSwap')
OTHER_KINDS = ('MetaDataReplace', 'RunningOrderReplace', 'RunningOrderEnd', 'ReadyToAir')
ALL_KINDS = STORY_KINDS + ITEM_KINDS + OTHER_KINDS   # 24 mergeable classes
MOVE_KINDS = ('StoryMove', 'EAStoryMove', 'EAStorySwap', 'ItemMoveMultiple', 'EAItemMove', 'EAItemSwap')


class Exp:
    def __init__(self, kind, op):
        self.kind = kind
        self.op = op                  # insert|append|replace|move|swap|delete|send|none
        self.schema = True            # schema-shaped message
        self.resolves = False         # every reference resolves and the outcome is defined
        self.defined = True           # False: behaviour undefined by MOS/repo (lenient)
        self.alts = []                # exact allowed result sequences (tuples) when resolves
        self.may_raise = False        # a MosMergeError is an allowed outcome (eg duplicates in an insert)
        self.owed = Counter()         # warning category -> count owed for unresolvable/duplicate elements
        self.optional = Counter()     # further warnings that may (not must) be emitted
        self.acted = ()               # resolvable named elements that must be acted upon
        self.target = ('none',)       # ('at', id) | ('end',) | ('unres',) | ('lenient',) | ('none',)
        self.payload = ()             # ids carried
        self.note = ''

    @property
    def must_signal(self):
        return sum(self.owed.values()) > 0

    def klass(self):
        """Relational abstraction of the case (for signatures)."""
        return self.note


def _present(ref, seq):
    return ref not in (BLANK, ABSENT) and ref in seq


def _target(tgt, seq, blank, absent):
    """blank/absent: 'end' | 'lenient' | 'unres'."""
    if tgt == BLANK:
        return {'end': ('end',), 'lenient': ('lenient',), 'unres': ('unres',)}[blank]
    if tgt == ABSENT:
        return {'end': ('end',), 'lenient': ('lenient',), 'unres': ('unres',)}[absent]
    if tgt in seq:
        return ('at', tgt)
    return ('unres',)


def _tname(t):
    return t[0] if t[0] != 'at' else 'at'


def exp_list(seq, case, level):
    """seq: list of ids (stories of the RO / items of the addressed story).
    level: 'story' | 'item'.  For item-level cases whose story reference does not resolve,
    call exp_nostory instead."""
    kind = case['kind']
    nf = STORY_NF if level == 'story' else ITEM_NF
    seq = list(seq)

    # ---------------------------------------------------------------- append
    if kind == 'StoryAppend':
        e = Exp(kind, 'append')
        ids = [p[0] for p in case['payload']]
        e.payload = tuple(ids)
        e.resolves = True
        e.alts = [tuple(seq + ids)]
        e.acted = tuple(ids)
        e.note = f'n={len(ids)}'
        return e

    # ---------------------------------------------------------------- insert
    if kind in ('StoryInsert', 'EAStoryInsert', 'ItemInsert', 'EAItemInsert'):
        e = Exp(kind, 'insert')
        ids = [p[0] for p in case['payload']]
        e.payload = tuple(ids)
        tgt = case['tgt']
        if kind == 'StoryInsert':
            t = _target(tgt, seq, blank='lenient', absent='lenient')
            if tgt == ABSENT:
                e.schema = False
        elif kind == 'EAStoryInsert':
            t = _target(tgt, seq, blank='end', absent='lenient')
        elif kind == 'ItemInsert':
            t = _target(tgt, seq, blank='end', absent='lenient')
            if tgt == ABSENT:
                e.schema = False
        else:  # EAItemInsert (ABSENT item id would classify as a story insert: not generated)
            t = _target(tgt, seq, blank='end', absent='lenient')
        e.target = t
        dups = [i for i in ids if i in seq] if level == 'story' else []
        new = [i for i in ids if i not in dups]
        if dups:
            e.owed[DUP] = len(dups)
        e.acted = tuple(new)
        rel = 'tgt=' + t[0]
        if t[0] == 'at':
            rel += '@%s' % ('first' if seq.index(t[1]) == 0 else 'last' if seq.index(t[1]) == len(seq) - 1 else 'mid')
        e.note = f'{rel},n={len(ids)},dups={len(dups)}'
        if t[0] == 'unres':
            e.owed[nf] += 1
            e.optional[DUP] = len(dups)
            e.owed.pop(DUP, None)
            e.acted = ()
            return e
        if t[0] == 'lenient':
            # undefined target: placing at an end, raising, or reporting it as not found (one warning,
            # nothing inserted) are all acceptable
            e.defined = False
            e.optional[nf] += 1
            e.optional[DUP] = len(dups)
            e.owed.pop(DUP, None)
            return e
        e.resolves = True
        e.alts = [tuple(seqref.insert_before(seq, new, t[1] if t[0] == 'at' else END))]
        e.may_raise = bool(dups)
        return e

    # ---------------------------------------------------------------- replace
    if kind in ('StoryReplace', 'EAStoryReplace', 'ItemReplace', 'EAItemReplace'):
        e = Exp(kind, 'replace')
        ids = [p[0] for p in case['payload']]
        e.payload = tuple(ids)
        tgt = case['tgt']
        t = _target(tgt, seq, blank='unres', absent='unres')
        if tgt == ABSENT and not kind.startswith('EA'):
            e.schema = False
        e.target = t
        e.note = f'tgt={t[0]},n={len(ids)}'
        if t[0] == 'unres':
            e.owed[nf] += 1
            return e
        if not ids:
            # nothing to put in its place: StoryReplace rejects it (existing test); others undefined
            e.defined = False
            e.note += ',empty'
            return e
        e.resolves = True
        e.alts = [tuple(seqref.replace(seq, t[1], ids))]
        e.acted = tuple(ids)
        k = seq.index(t[1])
        e.note += ',@%s' % ('first' if k == 0 else 'last' if k == len(seq) - 1 else 'mid')
        return e

    # ---------------------------------------------------------------- send
    if kind == 'StorySend':
        e = Exp(kind, 'send')
        sid = case['sid']
        e.payload = (sid,)
        if _present(sid, seq):
            e.resolves = True
            e.alts = [tuple(seq)]
            e.acted = (sid,)
            e.target = ('at', sid)
            e.note = 'k=%d/%d' % (seq.index(sid), len(seq))
        else:
            e.owed[nf] += 1
            e.target = ('unres',)
            e.note = 'unres'
        return e

    # ---------------------------------------------------------------- delete
    if kind in ('StoryDelete', 'EAStoryDelete', 'ItemDelete', 'EAItemDelete'):
        e = Exp(kind, 'delete')
        srcs = list(case['srcs'])
        seen = set()
        resolvable, unres, repeats = [], 0, 0
        for s in srcs:
            if _present(s, seq):
                if s in seen:
                    repeats += 1
                else:
                    seen.add(s)
                    resolvable.append(s)
            else:
                unres += 1
        e.acted = tuple(resolvable)
        if unres:
            e.owed[nf] = unres
        if repeats:
            # an existing ID named twice: MOS does not say whether the second naming is "not found"
            # (one more warning) or the same element named again (none) - both are accepted
            e.optional[nf] = repeats
            e.defined = False
        e.note = f'n={len(srcs)},unres={unres},rep={repeats}'
        if not unres and not repeats:
            e.resolves = True
            e.alts = [tuple(seqref.delete(seq, resolvable))]
        return e

    # ---------------------------------------------------------------- swap
    if kind in ('EAStorySwap', 'EAItemSwap'):
        e = Exp(kind, 'swap')
        a, b = case['srcs']
        ua, ub = not _present(a, seq), not _present(b, seq)
        e.note = 'unres=%d' % (ua + ub)
        if ua or ub:
            # one report suffices for a raise; for the warning route one per unresolvable operand
            e.owed[nf] = ua + ub
            return e
        if a == b:
            e.defined = False
            e.note = 'same'
            return e
        e.resolves = True
        e.alts = [tuple(seqref.swap(seq, a, b))]
        e.acted = (a, b)
        i, j = seq.index(a), seq.index(b)
        e.note = ('fwd' if i < j else 'rev') + (',adj' if abs(i - j) == 1 else ',far')
        return e

    # ---------------------------------------------------------------- move
    if kind in ('StoryMove', 'EAStoryMove', 'ItemMoveMultiple', 'EAItemMove'):
        e = Exp(kind, 'move')
        if kind == 'StoryMove':
            srcs = [case['src']]
            if case['src'] == ABSENT:          # no storyID at all: not schema-shaped (MOS requires the first storyID)
                e.schema = False
                e.owed[nf] = 1
                e.note = 'no-ids'
                e.target = ('unres',)
                return e
            t = _target(case['tgt'], seq, blank='end', absent='end')
        elif kind == 'EAStoryMove':
            srcs = list(case['srcs'])
            t = _target(case['tgt'], seq, blank='lenient', absent='end')
        elif kind == 'ItemMoveMultiple':
            srcs = list(case['srcs'])
            t = _target(case['tgt'], seq, blank='end', absent='unres')
        else:  # EAItemMove
            srcs = list(case['srcs'])
            t = _target(case['tgt'], seq, blank='end', absent='unres')
        e.target = t
        unres = [s for s in srcs if not _present(s, seq)]
        res = [s for s in srcs if _present(s, seq)]
        repeated = len(set(res)) != len(res)
        selfref = t[0] == 'at' and t[1] in res
        rel = []
        if t[0] == 'at' and res and not repeated and not selfref:
            ti = seq.index(t[1])
            for s in res:
                si = seq.index(s)
                rel.append('lt' if si < ti - 1 else 'adjlt' if si == ti - 1 else 'adjgt' if si == ti + 1 else 'gt')
        e.note = (f'tgt={t[0]},n={len(srcs)},unres={len(unres)}' + (',rep' if repeated else '') +
                  (',self' if selfref else '') + (',' + '/'.join(rel) if rel else ''))
        if t[0] == 'unres':
            e.owed[nf] = 1
            e.optional[nf] = len(unres)
            return e
        if unres:
            e.owed[nf] = len(unres)
        e.acted = tuple(dict.fromkeys(res))
        if repeated or selfref:
            e.defined = False
            if repeated:
                e.optional[nf] += len(res) - len(set(res))
            return e
        if t[0] == 'lenient':
            e.defined = False
            e.optional[nf] += 1
            return e
        if unres:
            return e
        e.resolves = True
        e.alts = [tuple(seqref.move_before(seq, res, t[1] if t[0] == 'at' else END))]
        return e

    raise ValueError(kind)


def exp_nostory(case):
    """Item-level case whose story reference does not resolve: nothing may change; one
    StoryNotFoundWarning (or MosMergeError) is owed; item warnings are optional."""
    e = Exp(case['kind'], 'none')
    e.owed[STORY_NF] = 1
    n = len(case.get('srcs', ())) + 2
    e.optional[ITEM_NF] = n
    e.target = ('unres',)
    e.note = 'story-unres'
    if case['story'] == ABSENT:
        e.schema = False       # every item message must name its story (flat messages and element_target alike)
    return e
