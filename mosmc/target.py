"""Loads the implementation under test and executes single steps on it.

* mosromgr is imported from $MOSMC_REPO (default /repo); the module path is asserted.
* logging is silenced (mosromgr calls logging.basicConfig(INFO) at import).
* every execution runs under an owned warnings context; only MosRoMgrWarning
  subclasses are reported as 'mosromgr warnings'.
* mosromgr.cli is NOT imported here (it installs a global 'ignore' filter).
"""
import os
import sys
import logging
import warnings

REPO = os.path.realpath(os.environ.get('MOSMC_REPO', '/repo'))

_loaded = None


class HarnessError(Exception):
    """Raised for problems of the harness itself (never a property violation)."""


def load():
    """Import mosromgr from REPO and return a namespace of what the harness uses."""
    global _loaded
    if _loaded is not None:
        return _loaded
    sys.dont_write_bytecode = True
    if REPO not in sys.path[:1]:
        sys.path.insert(0, REPO)
    # boto3 import is slow but harmless; no network is ever touched (fakes are installed
    # into utils.s3.s3 before any call that could reach it).
    import mosromgr
    here = os.path.realpath(os.path.dirname(mosromgr.__file__))
    if here != os.path.join(REPO, 'mosromgr'):
        raise HarnessError(f"mosromgr imported from {here}, expected {REPO}/mosromgr")
    import mosromgr.mostypes as mt
    import mosromgr.moscollection as mc
    import mosromgr.moselements as me
    import mosromgr.exc as exc
    import mosromgr.utils.s3 as s3mod
    import mosromgr.utils.xml as xmlmod
    logging.disable(logging.CRITICAL)

    class NS:
        pass
    ns = NS()
    ns.mosromgr = mosromgr
    ns.mt = mt
    ns.mc = mc
    ns.me = me
    ns.exc = exc
    ns.s3mod = s3mod
    ns.xmlmod = xmlmod
    _loaded = ns
    return ns


class Obs:
    """Observation of one execution."""
    __slots__ = ('exc', 'exc_msg', 'warns', 'other_warns', 'after', 'phase', 'cls', 'before', 'merge_error', 'completed_error')

    def __init__(self):
        self.exc = None          # exception class name or None
        self.exc_msg = None
        self.warns = ()          # tuple of mosromgr warning category names, in order
        self.other_warns = ()    # other warning category names
        self.after = None        # str(ro) after the step (also after an exception)
        self.phase = None        # 'parse-ro' | 'parse-msg' | 'merge' - where the exception arose
        self.cls = None          # class name of the parsed message
        self.before = None       # str(ro) right after parsing (the library's own serialisation of the source state)
        self.merge_error = False       # the exception is a MosMergeError (by isinstance, not by name)
        self.completed_error = False   # ... a MosCompletedMergeError

    def as_dict(self):
        return {k: getattr(self, k) for k in self.__slots__}


def exc_kind(ns, e):
    """Classify an exception: library class name chain."""
    return type(e).__name__


def is_lib_exc(ns, e):
    return isinstance(e, ns.exc.MosRoMgrException)


def warning_name(ns, category):
    """Documented category a warning belongs to (a subclass counts as its documented base)."""
    for base in ('StoryNotFoundWarning', 'ItemNotFoundWarning', 'DuplicateStoryWarning', 'MosMergeNonStrictWarning'):
        b = getattr(ns.exc, base, None)
        if b is not None and issubclass(category, b):
            return base
    return category.__name__


def exc_name(ns, e):
    """Name under which an exception is reported: the documented library class it is an instance of
    (most specific first), 'BUILTIN:<name>' for anything that is not a MosRoMgrException."""
    if not isinstance(e, ns.exc.MosRoMgrException):
        return 'BUILTIN:' + type(e).__name__
    for base in ('MosCompletedMergeError', 'MosMergeError', 'UnknownMosFileType', 'MosInvalidXML', 'InvalidMosCollection'):
        b = getattr(ns.exc, base, None)
        if b is not None and isinstance(e, b):
            return base
    return type(e).__name__


def split_warnings(ns, wlist):
    mine, other = [], []
    for w in wlist:
        if issubclass(w.category, ns.exc.MosRoMgrWarning):
            mine.append(warning_name(ns, w.category))
        else:
            other.append(w.category.__name__)
    return tuple(mine), tuple(other)


def parse(ns, text, wfilter='always'):
    """MosFile.from_string under an owned warnings context -> (obj, exc)."""
    with warnings.catch_warnings(record=True):
        warnings.simplefilter(wfilter)
        try:
            return ns.mt.MosFile.from_string(text), None
        except Exception as e:  # noqa
            return None, e


def touch(ro):
    """Read every documented read accessor of a running order once (results and exceptions are
    ignored).  Used before a merge so that an accessor that caches what it computed is exposed
    when the same live object is read again after the merge."""
    import io
    import contextlib
    with warnings.catch_warnings():
        warnings.simplefilter('ignore')
        for name in ('completed', 'ro_slug', 'start_time', 'end_time', 'duration', 'script', 'body',
                     'message_id', 'ro_id', 'base_tag', 'stories'):
            try:
                v = getattr(ro, name)
                if name == 'stories':
                    for s in v:
                        for sn in ('id', 'slug', 'items', 'duration', 'offset', 'start_time', 'end_time', 'script', 'body'):
                            try:
                                x = getattr(s, sn)
                                if sn == 'items' and x:
                                    for it in x:
                                        (it.id, it.slug, it.type, it.object_id, it.mos_id, it.note)
                            except Exception:  # noqa
                                pass
            except Exception:  # noqa
                pass
        try:
            repr(ro)
            str(ro)
            with contextlib.redirect_stdout(io.StringIO()):
                ro.inspect()
        except Exception:  # noqa
            pass


def step(ns, ro_text, msg_text, wfilter='always', touch_before=False):
    """Parse both texts freshly, do `ro += msg`, observe."""
    o = Obs()
    ro, e = parse(ns, ro_text, wfilter)
    if e is not None:
        o.exc, o.exc_msg, o.phase = exc_name(ns, e), str(e), 'parse-ro'
        return o, None, None
    try:
        o.before = str(ro)
    except Exception:  # noqa
        o.before = None
    if touch_before:
        touch(ro)
    msg, e = parse(ns, msg_text, wfilter)
    if e is not None:
        o.exc, o.exc_msg, o.phase = exc_name(ns, e), str(e), 'parse-msg'
        o.after = str(ro)
        return o, ro, None
    return step_live(ns, ro, msg, wfilter, o), ro, msg


def step_live(ns, ro, msg, wfilter='always', o=None):
    """`ro += msg` on live objects. Returns Obs; o.after is str() of the resulting
    running order (the same object after an exception)."""
    if o is None:
        o = Obs()
    if o.before is None:
        try:
            o.before = str(ro)
        except Exception:  # noqa
            pass
    o.cls = type(msg).__name__
    res = ro
    with warnings.catch_warnings(record=True) as w:
        warnings.simplefilter(wfilter)
        try:
            res = ro + msg
        except Exception as e:  # noqa
            o.exc, o.exc_msg, o.phase = exc_name(ns, e), str(e), 'merge'
            o.merge_error = isinstance(e, ns.exc.MosMergeError)
            o.completed_error = isinstance(e, ns.exc.MosCompletedMergeError)
    o.warns, o.other_warns = split_warnings(ns, w)
    try:
        o.after = str(res)
    except Exception as e:  # noqa
        o.after = None
        if o.exc is None:
            o.exc, o.exc_msg, o.phase = 'BUILTIN:' + type(e).__name__, str(e), 'serialise'
    return o


def merge_error_names(ns):
    """Names of MosMergeError and subclasses."""
    return {c.__name__ for c in vars(ns.exc).values()
            if isinstance(c, type) and issubclass(c, ns.exc.MosMergeError)}
