"""Common driver: run the parts of a property check, report, write evidence."""
import os
import sys
import time
import json

from . import explore, findings, evidence, target, seqref


def seed():
    try:
        return int(os.environ.get('VERIF_SEED', '0'))
    except ValueError:
        return 0


def graph_check(prop, tier, parts, *, level='model_checking', rule, assumptions=(), vacuity=None,
                extra_cov=None, enum_parts=()):
    """parts: list of dicts {harness, monitors, opts, label}.  Returns exit code."""
    t0 = time.time()
    target.load()
    nref = seqref.selfcheck(3)
    sd = seed()
    all_findings = []
    cov_parts = []
    tot_states = tot_trans = tot_nontrivial = 0
    samples = []
    caps = []
    bounds = []
    by_kind, by_outcome, by_class, extra = {}, {}, {}, {}
    parents_by_part = []
    for part in parts:
        opts = dict(part.get('opts', {}))
        opts['seed'] = sd
        # safety caps: on the unchanged tree every quick part reaches its fixpoint far below them;
        # they only bound the run when a change to the code makes the state space explode
        opts.setdefault('time_cap', 300 if tier == 'quick' else 1200)
        opts.setdefault('max_states', 40000 if tier == 'quick' else 2000000)
        res, info = explore.run_bfs(part['harness'], part['monitors'], prop, opts)
        parents = info.pop('parents')
        parents_by_part.append(parents)
        for f in res.findings.values():
            f['part'] = part['label']
            f['_parents'] = len(parents_by_part) - 1
            all_findings.append(f)
        tot_states += info['states']
        tot_trans += res.transitions
        tot_nontrivial += res.nontrivial
        for s in res.samples:
            if len(samples) < 6:
                samples.append(dict(s, part=part['label']))
        for c in info['caps_hit']:
            caps.append(f"{part['label']}: {c}")
        for c in info['bounds']:
            bounds.append(f"{part['label']}: {c}")
        for dst, src in ((by_kind, res.by_kind), (by_outcome, res.by_outcome), (extra, res.extra),
                         (by_class, res.by_class)):
            for k, v in src.items():
                dst[k] = dst.get(k, 0) + v
        cov_parts.append({'part': part['label'], 'harness': part['harness'].name,
                          'initial_states': info['initial_states'], 'states': info['states'],
                          'transitions': res.transitions, 'fixpoint_reached': info['fixpoint'],
                          'depth_completed': info['depth_completed'], 'levels': info['levels'],
                          'states_reached_not_expanded': info['states_seen'] - info['states'],
                          'disabled_by_cap': dict(res.disabled), 'wall_s': round(info['wall_s'], 2)})
    # additional plain-enumeration parts (collection sequences, documents) of the same property
    enum_cov = []
    for part in enum_parts:
        opts = dict(part.get('opts', {}))
        opts['seed'] = sd
        opts['prop'] = prop
        res, info = explore.run_enum(part['worker'], part['items'], opts, part.get('chunk', 100),
                                     part.get('time_cap', 150 if tier == 'quick' else 3000))
        parents_by_part.append({})
        for f in res.findings.values():
            f['part'] = part['label']
            f['_parents'] = len(parents_by_part) - 1
            f.setdefault('before', None)
            all_findings.append(f)
        tot_trans += res.transitions
        tot_nontrivial += res.nontrivial
        tot_states += int(res.extra.get('states', 0))
        for c in info['caps_hit']:
            caps.append(f"{part['label']}: {c}")
        for dst, src in ((by_outcome, res.by_outcome), (extra, res.extra), (by_class, res.by_class)):
            for k, v in src.items():
                dst[k] = dst.get(k, 0) + v
        for smp in res.samples[:2]:
            samples.append({'part': part['label'], 'case': smp})
        enum_cov.append({'part': part['label'], 'engine': 'enumeration', 'items': info['items'],
                         'executions': res.transitions, 'wall_s': round(info['wall_s'], 2)})
    # merge findings with the same signature across parts
    merged = {}
    for f in all_findings:
        if f['sig'] in merged:
            merged[f['sig']]['count'] += f['count']
        else:
            merged[f['sig']] = f

    def replay_extra(f):
        parents = parents_by_part[f['_parents']]
        if not f.get('before'):
            return {}
        init, hist = explore.history_of(parents, f['before'])
        return {'history_initial_state': init, 'history_messages': hist,
                'how_to_replay': './check --replay <this file>'}

    flist = list(merged.values())
    for f in flist:
        f.setdefault('property', prop)
    nv, nk = findings.report(prop, flist, replay_extra)
    for f in flist:
        f.pop('_parents', None)
    # vacuity guards (harness errors, exit 3)
    problems = []
    if len(by_outcome) < 2:
        problems.append(f'only {len(by_outcome)} distinct outcome class observed')
    if vacuity:
        problems.extend(vacuity(by_kind, by_outcome, extra, by_class))
    coverage = {
        'states': tot_states,
        'transitions': tot_trans,
        'traces_validated_against_impl': tot_trans,
        'evaluations': tot_trans,
        'distinct_nontrivial': tot_nontrivial,
        'rule': rule,
        'samples': samples or [{'note': 'no sample selected'}],
        'exhaustive': not caps,
        'closed_under_menu': all(p['fixpoint_reached'] for p in cov_parts),
        'explanation': 'exhaustive = every case of the stated alphabet was executed in every expanded state and no safety '
                       'cap was hit; closed_under_menu = additionally the breadth-first closure reached its fixpoint '
                       '(otherwise the stated depth bound applies)',
        'caps_hit': caps,
        'depth_bounds': bounds,
        'parts': cov_parts + enum_cov,
        'transitions_by_message_class': dict(sorted(by_kind.items())),
        'distinct_outcome_classes': dict(sorted(by_outcome.items(), key=lambda kv: -kv[1])),
        'distinct_case_classes': len(by_class),
        'monitor_counters': dict(sorted(extra.items())),
        'reference_selfcheck_cases': nref,
        'violation_signatures': nv,
        'known_finding_signatures': nk,
        'workers': explore.NWORKERS,
        'repo': target.REPO,
    }
    if extra_cov:
        coverage.update(extra_cov)
    wall = time.time() - t0
    evidence.write(prop, tier, sd, level, coverage, wall, nv, assumptions)
    print(f'{prop} [{tier}] states={tot_states} transitions={tot_trans} nontrivial={tot_nontrivial} '
          f'violations={nv} known={nk} caps={len(caps)} wall={wall:.1f}s')
    if problems:
        for p in problems:
            print(f'HARNESS-ERROR {prop}: {p}')
    # a violation takes precedence over a vacuity problem (which a faulty library can itself cause)
    return 1 if nv else (3 if problems else 0)


def enum_check(prop, tier, parts, *, level='exploration', rule, assumptions=(), vacuity=None, extra_cov=None):
    """parts: list of dicts {label, worker, items, opts, chunk}. worker(ns, items, res, opts) records
    findings with explore.add_simple_finding and counts res.transitions (= evaluations), res.nontrivial,
    res.by_outcome, res.by_class, res.samples."""
    t0 = time.time()
    target.load()
    sd = seed()
    tot = explore.Result()
    caps = []
    cov_parts = []
    for part in parts:
        opts = dict(part.get('opts', {}))
        opts['seed'] = sd
        opts['prop'] = prop
        res, info = explore.run_enum(part['worker'], part['items'], opts, part.get('chunk', 200),
                                     part.get('time_cap', 200 if tier == 'quick' else 6000))
        for f in res.findings.values():
            f['part'] = part['label']
        tot.merge(res)
        caps += [f"{part['label']}: {c}" for c in info['caps_hit']]
        cov_parts.append({'part': part['label'], 'items': info['items'], 'evaluations': res.transitions,
                          'wall_s': round(info['wall_s'], 2)})
    flist = list(tot.findings.values())
    nv, nk = findings.report(prop, flist)
    problems = []
    if len(tot.by_outcome) < 2:
        problems.append(f'only {len(tot.by_outcome)} distinct outcome class observed')
    if vacuity:
        problems.extend(vacuity(tot))
    coverage = {
        'evaluations': tot.transitions,
        'distinct_nontrivial': tot.nontrivial,
        'rule': rule,
        'samples': tot.samples[:6] or [{'note': 'no sample selected'}],
        'exhaustive': not caps,
        'caps_hit': caps,
        'parts': cov_parts,
        'distinct_outcome_classes': dict(sorted(tot.by_outcome.items(), key=lambda kv: -kv[1])),
        'cases_by_class': dict(sorted(tot.by_class.items())) if len(tot.by_class) <= 80 else {'distinct': len(tot.by_class)},
        'counters': dict(sorted(tot.extra.items())),
        'violation_signatures': nv,
        'known_finding_signatures': nk,
        'workers': explore.NWORKERS,
        'repo': target.REPO,
    }
    if level == 'model_checking':
        coverage['states'] = int(tot.extra.get('states', tot.states)) or 1
        coverage['transitions'] = tot.transitions
        coverage['traces_validated_against_impl'] = int(tot.extra.get('traces', tot.transitions))
    if extra_cov:
        coverage.update(extra_cov)
    wall = time.time() - t0
    evidence.write(prop, tier, sd, level, coverage, wall, nv, assumptions)
    print(f'{prop} [{tier}] evaluations={tot.transitions} nontrivial={tot.nontrivial} '
          f'violations={nv} known={nk} caps={len(caps)} wall={wall:.1f}s')
    if problems:
        for p in problems:
            print(f'HARNESS-ERROR {prop}: {p}')
    return 1 if nv else (3 if problems else 0)
