"""Explicit-state breadth-first exploration of the real implementation.

A state is the exact serialisation of a running order.  Each BFS level is cut into
contiguous chunks for a pool of long-lived forked workers; results are merged in
chunk order, so the outcome is identical for any worker count.

A Harness supplies initial states, the finite menu of cases enabled in a state, the
renderer (case -> XML text) and the successor filter (caps).  Monitors are callables
taking a Ctx and returning a list of (signature, detail) findings.
"""
import os
import time
import multiprocessing as mp
from collections import Counter
from functools import cached_property

from . import target, tree, spec
from .gen import BLANK, ABSENT

NWORKERS = int(os.environ.get('MOSMC_WORKERS', '0')) or min(16, os.cpu_count() or 1)


class Ctx:
    """Everything a monitor may look at for one executed transition."""

    def __init__(self, ns, harness, before, view, case, msg, obs):
        self.ns = ns
        self.harness = harness
        self.before = before
        self.view = view
        self.case = case
        self.msg = msg
        self.obs = obs

    @cached_property
    def after_view(self):
        if self.obs.after is None:
            return None
        if self.obs.after == self.before or self.obs.after == self.obs.before:
            return self.view
        try:
            return tree.RoView(self.obs.after)
        except Exception:
            return None

    @cached_property
    def lib_view(self):
        """View of the source state as the library itself serialises it (equal to `view` up to the
        serialiser's formatting; differs only if serialising loses or alters content - C14's business)."""
        b = self.obs.before
        if b is None or b == self.before:
            return self.view
        try:
            return tree.RoView(b)
        except Exception:
            return self.view

    @cached_property
    def level(self):
        k = self.case['kind']
        if k in spec.STORY_KINDS:
            return 'story'
        if k in spec.ITEM_KINDS:
            return 'item'
        return 'other'

    @cached_property
    def addressed(self):
        """The story addressed by an item-level case (by equality), in the before view."""
        if self.level != 'item':
            return None
        return self.view.story(None if self.case['story'] in (BLANK, ABSENT) else self.case['story'])

    @cached_property
    def seq_before(self):
        if self.level == 'story':
            return self.view.story_ids
        if self.level == 'item':
            return self.addressed.item_ids if self.addressed is not None else None
        return None

    @cached_property
    def seq_after(self):
        av = self.after_view
        if av is None:
            return None
        if self.level == 'story':
            return av.story_ids
        if self.level == 'item':
            if self.addressed is None:
                return None
            s = av.story(self.addressed.id)
            return s.item_ids if s is not None else None
        return None

    @cached_property
    def exp(self):
        if self.level == 'story':
            return spec.exp_list(self.seq_before, self.case, 'story')
        if self.level == 'item':
            if self.addressed is None:
                return spec.exp_nostory(self.case)
            return spec.exp_list(self.seq_before, self.case, 'item')
        return None

    @property
    def raised(self):
        return self.obs.exc is not None

    @property
    def merge_error(self):
        return bool(self.obs.merge_error)

    @property
    def changed(self):
        """The library's serialisation after the step differs from its serialisation before it."""
        b = self.obs.before if self.obs.before is not None else self.before
        return self.obs.after != b


class Result:
    """Mergeable result of processing a chunk of states."""

    def __init__(self):
        self.transitions = 0
        self.states = 0
        self.nontrivial = 0
        self.by_kind = Counter()
        self.by_outcome = Counter()
        self.by_class = Counter()
        self.disabled = Counter()
        self.findings = {}          # sig -> dict(first instance, count)
        self.successors = {}        # text -> (parent text, msg text, case)
        self.extra = Counter()      # monitor-defined counters
        self.samples = []

    def add_finding(self, prop, sig, detail, ctx):
        key = (prop, sig)
        f = self.findings.get(key)
        if f is None:
            self.findings[key] = {
                'property': prop, 'sig': sig, 'detail': detail, 'count': 1,
                'before': ctx.before, 'msg': ctx.msg, 'case': ctx.case,
                'obs': ctx.obs.as_dict(), 'harness': ctx.harness.name,
            }
        else:
            f['count'] += 1

    def merge(self, other):
        self.transitions += other.transitions
        self.states += other.states
        self.nontrivial += other.nontrivial
        self.by_kind.update(other.by_kind)
        self.by_outcome.update(other.by_outcome)
        self.by_class.update(other.by_class)
        self.disabled.update(other.disabled)
        self.extra.update(other.extra)
        for k, f in other.findings.items():
            if k in self.findings:
                self.findings[k]['count'] += f['count']
            else:
                self.findings[k] = f
        for t, p in other.successors.items():
            self.successors.setdefault(t, p)
        if len(self.samples) < 8:
            self.samples.extend(other.samples[:8 - len(self.samples)])


# ---------------------------------------------------------------- worker side
_W = {}


def _die_with_parent():
    """Worker processes must not outlive the check that started them (eg when it is killed)."""
    import threading
    ppid = os.getppid()

    def watch():
        while True:
            time.sleep(2)
            if os.getppid() != ppid:
                os._exit(1)
    threading.Thread(target=watch, daemon=True).start()


def _worker_init(harness, monitors, prop, opts):
    _die_with_parent()
    _W['ns'] = target.load()
    _W['harness'] = harness
    _W['monitors'] = monitors
    _W['prop'] = prop
    _W['opts'] = opts


def process_states(texts):
    ns = _W['ns']
    h = _W['harness']
    monitors = _W['monitors']
    prop = _W['prop']
    opts = _W['opts']
    wfilter = opts.get('wfilter', 'always')
    res = Result()
    seed = opts.get('seed', 0)
    touch_before = any(getattr(m, 'touch_before', False) for m in monitors)
    for text in texts:
        res.states += 1
        view = tree.RoView(text)
        for mon in monitors:
            sm = getattr(mon, 'state', None)
            if sm is not None:
                for sig, detail in sm(ns, h, text, view, res):
                    ctx = Ctx(ns, h, text, view, {'kind': 'STATE'}, '', target.Obs())
                    res.add_finding(prop, sig, detail, ctx)
        for case in h.menu(view, res):
            msg = h.render(case, view)
            obs, ro, mobj = target.step(ns, text, msg, wfilter, touch_before)
            ctx = Ctx(ns, h, text, view, case, msg, obs)
            ctx.ro_obj, ctx.msg_obj = ro, mobj
            res.transitions += 1
            res.by_kind[case['kind']] += 1
            oc = obs.exc or ('warn:' + '+'.join(sorted(set(obs.warns))) if obs.warns else
                             ('changed' if ctx.changed else 'same'))
            res.by_outcome[oc] += 1
            if ctx.changed or obs.exc or obs.warns:
                res.nontrivial += 1
            bad = False
            for mon in monitors:
                for sig, detail in mon(ctx, res):
                    bad = True
                    res.add_finding(prop, sig, detail, ctx)
            if (res.transitions + seed) % 9973 == 1 and len(res.samples) < 8:
                res.samples.append({'state_story_ids': view.story_ids, 'case': _jsonable(case),
                                    'message': msg, 'outcome': oc,
                                    'after_story_ids': ctx.after_view.story_ids if ctx.after_view else None})
            if not bad and obs.exc is None and obs.after is not None and ctx.changed and obs.after != text:
                if obs.after not in res.successors and h.accept(ctx):
                    res.successors[obs.after] = (text, msg)
    return res


def _jsonable(x):
    if isinstance(x, dict):
        return {k: _jsonable(v) for k, v in x.items()}
    if isinstance(x, (list, tuple)):
        return [_jsonable(v) for v in x]
    if x == BLANK:
        return '<BLANK>'
    if x == ABSENT:
        return '<ABSENT>'
    return x


# ---------------------------------------------------------------- driver side
def run_bfs(harness, monitors, prop, opts):
    """Breadth-first closure. Returns (Result, info dict)."""
    t0 = time.time()
    max_depth = opts.get('max_depth', 99)
    max_states = opts.get('max_states', 10 ** 9)
    deadline = t0 + opts.get('time_cap', 10 ** 9)
    # initial states are put into the serialiser's canonical form (standard library only), so that
    # "the result differs from the input state" is meaningful from depth 0 on
    init = list(dict.fromkeys(canonical(t) for t in harness.initial_states()))
    seen = set(init)
    parents = {}
    frontier = init
    total = Result()
    info = {'initial_states': len(init), 'levels': [], 'caps_hit': [], 'bounds': [], 'fixpoint': False}
    expanded = 0
    ctx = mp.get_context('fork')
    depth = 0
    with ctx.Pool(NWORKERS, initializer=_worker_init, initargs=(harness, monitors, prop, opts)) as pool:
        while frontier:
            if depth > max_depth:
                info['bounds'].append(f'max_depth={max_depth}: {len(frontier)} states at depth {depth} were reached but not expanded')
                break
            nchunks = max(1, min(len(frontier), NWORKERS * 8))
            size = (len(frontier) + nchunks - 1) // nchunks
            chunks = [frontier[i:i + size] for i in range(0, len(frontier), size)]
            level = Result()
            timed_out = False
            done = 0
            it = pool.imap(process_states, chunks)
            while done < len(chunks):
                try:
                    r = it.next(timeout=opts.get('chunk_timeout', 1500))
                except mp.TimeoutError:
                    # a single chunk that takes this long means a step of the library does not terminate
                    pool.terminate()
                    raise target.HarnessError(f'a chunk of {len(chunks[0])} states did not finish within '
                                              f'{opts.get("chunk_timeout", 1500)} s (a library call that does not return?)')
                level.merge(r)
                done += 1
                if time.time() > deadline and done < len(chunks):
                    timed_out = True
                    break
            total.merge(level)
            expanded += level.states
            if timed_out:
                pool.terminate()
                info['caps_hit'].append(f'time_cap={opts.get("time_cap")}s hit at depth {depth}: '
                                        f'{done} of {len(chunks)} chunks of this level explored; deeper levels not explored')
                info['levels'].append({'depth': depth, 'states': len(frontier), 'transitions': level.transitions,
                                       'new_states': None, 'partial': True})
                depth += 1
                break
            total.successors = {}
            nxt = []
            for t, p in level.successors.items():
                if t not in seen:
                    if len(seen) >= max_states:
                        if not any(c.startswith('max_states') for c in info['caps_hit']):
                            info['caps_hit'].append(f'max_states={max_states}')
                        break
                    seen.add(t)
                    parents[t] = p
                    nxt.append(t)
            info['levels'].append({'depth': depth, 'states': len(frontier), 'transitions': level.transitions,
                                   'new_states': len(nxt)})
            frontier = nxt
            depth += 1
            if frontier and time.time() > deadline:
                info['caps_hit'].append(f'time_cap={opts.get("time_cap")}s hit after depth {depth - 1} '
                                        f'(frontier of {len(frontier)} states not expanded)')
                break
        else:
            info['fixpoint'] = True
    info['states'] = expanded          # states whose whole menu was executed
    info['states_seen'] = len(seen)    # including reached-but-unexpanded frontier states
    info['depth_completed'] = depth - 1
    info['wall_s'] = time.time() - t0
    info['parents'] = parents
    return total, info


def canonical(text):
    import xml.etree.ElementTree as ET
    return ET.tostring(ET.fromstring(text), encoding='unicode')


def history_of(parents, text):
    """Message history from an initial state to `text` along the BFS spanning tree."""
    msgs = []
    while text in parents:
        text, msg = parents[text]
        msgs.append(msg)
    msgs.reverse()
    return text, msgs


# ---------------------------------------------------------------- plain enumeration (no state graph)
_E = {}


def _enum_init(worker_fn, opts):
    _die_with_parent()
    _E['ns'] = target.load()
    _E['fn'] = worker_fn
    _E['opts'] = opts


def _enum_chunk(items):
    res = Result()
    _E['fn'](_E['ns'], items, res, _E['opts'])
    return res


def run_enum(worker_fn, items, opts=None, chunk=200, time_cap=None):
    """Run worker_fn(ns, items_chunk, res, opts) over all items in a forked pool; merge in order."""
    t0 = time.time()
    opts = opts or {}
    items = list(items)
    chunks = [items[i:i + chunk] for i in range(0, len(items), chunk)]
    total = Result()
    info = {'items': len(items), 'caps_hit': []}
    ctx = mp.get_context('fork')
    done = 0
    with ctx.Pool(NWORKERS, initializer=_enum_init, initargs=(worker_fn, opts)) as pool:
        it = pool.imap(_enum_chunk, chunks)
        while done < len(chunks):
            try:
                r = it.next(timeout=opts.get('chunk_timeout', 1500))
            except mp.TimeoutError:
                pool.terminate()
                raise target.HarnessError(f'a chunk of {len(chunks[0])} items did not finish within '
                                          f'{opts.get("chunk_timeout", 1500)} s (a library call that does not return?)')
            total.merge(r)
            done += 1
            if time_cap and time.time() - t0 > time_cap and done < len(chunks):
                info['caps_hit'].append(f'time_cap={time_cap}s: {done} of {len(chunks)} chunks explored')
                pool.terminate()
                break
    info['wall_s'] = time.time() - t0
    return total, info


def add_simple_finding(res, prop, sig, detail, **fields):
    key = (prop, sig)
    f = res.findings.get(key)
    if f is None:
        d = {'property': prop, 'sig': sig, 'detail': detail, 'count': 1}
        d.update(fields)
        res.findings[key] = d
    else:
        f['count'] += 1
