"""TLC front end: run the TLA+ model of MosCollection.merge and read back every reachable model
state, so that each one can be replayed against the implementation (conformance check)."""
import os
import re
import shutil
import subprocess
import tempfile

VERIF = os.path.dirname(os.path.dirname(os.path.abspath(__file__)))
TLA_DIR = os.path.join(VERIF, 'tla')


def run_collmerge(n):
    """-> (states, info).  states: list of dicts(kinds, strict, i, completed, applied, warned, raised)."""
    tlc = shutil.which('tlc')
    if tlc is None:
        return None, {'skipped': 'tlc not found on PATH'}
    tmp = tempfile.mkdtemp(prefix='mosmc-tlc-')
    try:
        for f in ('CollMerge.tla',):
            shutil.copy(os.path.join(TLA_DIR, f), tmp)
        cfg = open(os.path.join(TLA_DIR, 'CollMerge.cfg')).read()
        cfg = re.sub(r'CONSTANT N = \d+', f'CONSTANT N = {n}', cfg)
        open(os.path.join(tmp, 'CollMerge.cfg'), 'w').write(cfg)
        p = subprocess.run([tlc, '-workers', '1', '-noGenerateSpecTE', '-metadir', os.path.join(tmp, 'meta'),
                            '-dump', os.path.join(tmp, 'states'), '-config', 'CollMerge.cfg', 'CollMerge.tla'],
                           cwd=tmp, capture_output=True, text=True, timeout=1800)
        out = p.stdout + p.stderr
        info = {'tlc_exit': p.returncode, 'n': n}
        m = re.search(r'(\d+) states generated, (\d+) distinct states found', out)
        if m:
            info['states_generated'], info['distinct_states'] = int(m.group(1)), int(m.group(2))
        if 'No error has been found' not in out:
            info['error'] = out[-1500:]
            return None, info
        info['invariants'] = re.findall(r'^INVARIANT (\w+)', cfg, re.M)
        dump = open(os.path.join(tmp, 'states.dump')).read()
        states = []
        for block in re.split(r'^State \d+:\n', dump, flags=re.M)[1:]:
            st = {}
            for line in block.strip().splitlines():
                mm = re.match(r'/\\ (\w+) = (.*)', line.strip())
                if not mm:
                    continue
                k, v = mm.group(1), mm.group(2).strip()
                if k == 'kinds':
                    st[k] = tuple(re.findall(r'"(\w+)"', v))
                elif k in ('strict', 'completed'):
                    st[k] = v == 'TRUE'
                elif k in ('i', 'warned'):
                    st[k] = int(v)
                elif k == 'applied':
                    st[k] = tuple(sorted(int(x) for x in re.findall(r'\d+', v)))
                elif k == 'raised':
                    st[k] = v.strip('"')
            states.append(st)
        if len(states) != info.get('distinct_states'):
            info['error'] = f"dump holds {len(states)} states, TLC reported {info.get('distinct_states')}"
            return None, info
        return states, info
    finally:
        shutil.rmtree(tmp, ignore_errors=True)
