"""evidence/<id>.json writer with structural self-validation (jsonschema is only in the
tooling venv; the self-test validates with it, the writer checks the required keys)."""
import os
import json

VERIF = os.path.dirname(os.path.dirname(os.path.abspath(__file__)))
EVID_DIR = os.environ.get('MOSMC_EVIDENCE_DIR') or os.path.join(VERIF, 'evidence')

LEVEL_KEYS = {
    'model_checking': ('states', 'transitions', 'traces_validated_against_impl', 'samples'),
    'exploration': ('evaluations', 'distinct_nontrivial', 'rule', 'samples'),
}


def write(prop, tier, seed, level, coverage, wall_s, violations, assumptions=()):
    for k in LEVEL_KEYS[level]:
        if k not in coverage:
            raise ValueError(f'evidence for {prop}: coverage lacks {k}')
    if not coverage['samples']:
        raise ValueError(f'evidence for {prop}: no samples')
    if level == 'exploration' and coverage['distinct_nontrivial'] < 2:
        raise ValueError(f'evidence for {prop}: distinct_nontrivial < 2')
    doc = {
        'property_id': prop,
        'tier': tier,
        'seed': int(seed),
        'level': level,
        'coverage': coverage,
        'assumptions': list(assumptions),
        'wall_s': round(float(wall_s), 3),
        'violations': int(violations),
    }
    os.makedirs(EVID_DIR, exist_ok=True)
    path = os.path.join(EVID_DIR, f'{prop}.json')
    tmp = path + '.tmp'
    with open(tmp, 'w', encoding='utf-8') as f:
        json.dump(doc, f, indent=1, ensure_ascii=False, default=str)
    os.replace(tmp, path)
    return path
