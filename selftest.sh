#!/bin/sh
# Structural self-test of the deliverables: MANIFEST.json and every evidence file validate against the
# schemas, every property is either claimed or listed as not applicable, evidence comes from /repo,
# the reference list semantics agree with themselves, the TLA+ model passes TLC.
cd "$(dirname "$0")"
python3-vt - <<'PY' || exit 1
import json, jsonschema, glob, sys
man = json.load(open('MANIFEST.json'))
jsonschema.validate(man, json.load(open('/root/.vp/MANIFEST.schema.json')))
props = [json.loads(l)['id'] for l in open('properties.jsonl')]
claimed = [c['property_id'] for c in man['checks']]
na = [n['property_id'] for n in man.get('not_applicable', [])]
assert sorted(claimed + na) == sorted(props), (claimed, na)
sch = json.load(open('/root/.vp/EVIDENCE.schema.json'))
for c in man['checks']:
    d = json.load(open(c['evidence_file']))
    jsonschema.validate(d, sch)
    assert d['property_id'] == c['property_id'] and d['level'] == c['level_claimed']['category'], c['property_id']
    assert d['coverage'].get('repo', '/repo') == '/repo', (c['property_id'], 'evidence was written against another tree')
    assert d.get('violations', 0) == 0, c['property_id']
print('MANIFEST and %d evidence files valid' % len(man['checks']))
PY
PYTHONPATH=. /venv/bin/python -c "
from mosmc import seqref, tlc
print('seqref self cross-check cases:', seqref.selfcheck(4))
st, info = tlc.run_collmerge(3)
print('TLC:', info if st is None else {k: info[k] for k in ('distinct_states', 'invariants')})
" || exit 1
PYTHONPATH=. /venv/bin/python -m pytest -q -p no:cacheprovider -W ignore::DeprecationWarning tests || exit 1
