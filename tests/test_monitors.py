"""Self-tests of the machinery: each monitor stays silent on the library as it is and reports a
deliberately broken variant (the fault is monkeypatched in this process; workers are forked from it).

Run:  cd /verif && PYTHONPATH=. /venv/bin/python -m pytest -q -p no:cacheprovider tests
"""
import copy
import pytest

from mosmc import target, explore, tree, gen
from mosmc.harnesses import HStory, HItem, HMixed
from mosmc import monitors as M

ns = target.load()


def run(harness, mons, depth=0):
    res, info = explore.run_bfs(harness, mons, 'TEST', {'max_depth': depth, 'time_cap': 120, 'max_states': 5000})
    return {k[1]: v for k, v in res.findings.items()}, res


SMALL_S = dict(pool=3, cap=3, max_list=2, layouts=('before',))
SMALL_I = dict(pool=3, cap=3, max_list=2, patterns=('plain',), positions=('second',))


def test_silent_on_the_library_as_it_is():
    for h, mons in ((HStory(**SMALL_S), [M.OrderMonitor('story'), M.mon_unchanged_on_raise, M.mon_library_exceptions, M.mon_nothing_skipped, M.mon_frame]),
                    (HItem(**SMALL_I), [M.OrderMonitor('item'), M.mon_unchanged_on_raise, M.mon_library_exceptions, M.mon_nothing_skipped, M.mon_frame])):
        f, res = run(h, mons, depth=9)
        assert f == {}, list(f)[:3]
        assert res.transitions > 1000


def test_order_monitor_reports_a_move_that_lands_after_the_target(monkeypatch):
    mt = ns.mt
    orig = mt.StoryMove.merge

    def late(self, ro):
        # the historical defect: target index taken before the source is removed
        tgt = self.target_story
        if self.source_story is None or tgt is None:
            return orig(self, ro)
        t, ti = mt.find_child(parent=ro.base_tag, child_tag='story', id=tgt.id)
        s, si = mt.find_child(parent=ro.base_tag, child_tag='story', id=self.source_story.id)
        if t is None or s is None:
            return orig(self, ro)
        ro.base_tag.remove(s)
        ro.base_tag.insert(ti, s)
        return ro
    monkeypatch.setattr(mt.StoryMove, 'merge', late)
    f, _ = run(HStory(kinds=('StoryMove',), **SMALL_S), [M.OrderMonitor('story')])
    assert any('misordered' in k for k in f), list(f)


def test_unchanged_on_raise_reports_a_partial_move(monkeypatch):
    mt = ns.mt

    def partial(self, ro):
        story, _ = mt.find_child(parent=ro.base_tag, child_tag='story', id=self.story.id)
        if story is None:
            raise ns.exc.MosMergeError('story not found')
        for it in self.items:
            node, _ = mt.find_child(parent=story, child_tag='item', id=it.id)
            if node is None:
                raise ns.exc.MosMergeError('item not found')      # after earlier items were already moved
            story.remove(node)
            story.append(node)
        return ro
    monkeypatch.setattr(mt.ItemMoveMultiple, 'merge', partial)
    f, _ = run(HItem(kinds=('ItemMoveMultiple',), **SMALL_I), [M.mon_unchanged_on_raise])
    assert any('mutated-before-raise' in k for k in f), list(f)


def test_nothing_skipped_reports_a_silent_delete(monkeypatch):
    mt = ns.mt

    def silent(self, ro):
        for st in self.stories:
            node, _ = mt.find_child(parent=ro.base_tag, child_tag='story', id=st.id)
            if node is not None:
                ro.base_tag.remove(node)
        return ro
    monkeypatch.setattr(mt.StoryDelete, 'merge', silent)
    f, _ = run(HStory(kinds=('StoryDelete',), **SMALL_S), [M.mon_nothing_skipped])
    assert any(':silent:StoryNotFoundWarning' in k for k in f), list(f)


def test_nothing_skipped_accepts_raise_instead_of_warning(monkeypatch):
    mt = ns.mt
    orig = mt.StoryDelete.merge

    def strict(self, ro):
        for st in self.stories:
            node, _ = mt.find_child(parent=ro.base_tag, child_tag='story', id=st.id)
            if node is None:
                raise ns.exc.MosMergeError('story not found')
        return orig(self, ro)
    monkeypatch.setattr(mt.StoryDelete, 'merge', strict)
    f, _ = run(HStory(kinds=('StoryDelete',), **SMALL_S), [M.mon_nothing_skipped, M.mon_unchanged_on_raise, M.mon_library_exceptions])
    assert f == {}, list(f)[:3]


def test_frame_reports_a_wildcard_hit(monkeypatch):
    xm = ns.xmlmod
    orig = xm.find_child

    def wildcard(parent, child_tag, id=xm._ANY):
        return orig(parent, child_tag) if id is None else orig(parent, child_tag, id)
    monkeypatch.setattr(ns.mt, 'find_child', wildcard)
    f, _ = run(HStory(kinds=('StoryDelete', 'StoryReplace'), rich=True, **SMALL_S), [M.mon_frame])
    assert any('collateral:nothing-named' in k for k in f), list(f)


def test_library_exceptions_reports_a_builtin(monkeypatch):
    mt = ns.mt
    orig = mt.EAStorySwap.merge

    def boom(self, ro):
        a, b = self.stories
        if a.id == b.id:
            raise ValueError('same')
        return orig(self, ro)
    monkeypatch.setattr(mt.EAStorySwap, 'merge', boom)
    f, _ = run(HStory(kinds=('EAStorySwap',), **SMALL_S), [M.mon_library_exceptions])
    assert any('BUILTIN:ValueError' in k for k in f), list(f)


def test_completion_monitor_reports_a_guard_that_exempts_one_class(monkeypatch):
    mt = ns.mt
    orig = mt.RunningOrder.__add__

    def add(self, other):
        if isinstance(other, mt.ReadyToAir):
            return other.merge(self)
        return orig(self, other)
    monkeypatch.setattr(mt.RunningOrder, '__add__', add)
    from mosmc.harnesses import HCompletion
    f, _ = run(HCompletion(max_list=1, layouts=('before',), init_shapes=[('A', 'AB')]), [M.mon_completion], depth=1)
    assert any(k.startswith('ReadyToAir:post-completion') for k in f), list(f)


def test_accessors_report_a_memoised_value(monkeypatch):
    mt = ns.mt
    prop = mt.RunningOrder.completed

    def memo(self):
        if not hasattr(self, '_memo_completed'):
            self._memo_completed = prop.fget(self)
        return self._memo_completed
    monkeypatch.setattr(mt.RunningOrder, 'completed', property(memo))
    f, _ = run(HMixed(kinds=('RunningOrderEnd', 'ReadyToAir'), max_list=1, layouts=('before',), init_shapes=[('A',)]), [M.mon_completion])
    assert any('not-completed' in k for k in f), list(f)


def test_live_third_step_reports_a_cache_made_stale_by_the_second_message(monkeypatch):
    """A position cache filled by a first roStorySend and not refreshed after a count-preserving move only
    shows on a third message on the same live object: the one- and two-message monitors stay silent."""
    mt = ns.mt
    orig = mt.StorySend.merge

    def cached(self, ro):
        story_id = self.story.id
        cache = ro.__dict__.setdefault('_test_pos', {})
        n = len(ro.base_tag)
        if cache.get('n') != n or cache.get('base') is not ro.base_tag:
            cache.clear()
            cache.update(n=n, base=ro.base_tag, pos={(c.findtext('storyID')): i for i, c in enumerate(ro.base_tag) if c.tag == 'story'})
        i = cache['pos'].get(story_id)
        if i is None:
            return orig(self, ro)
        new = copy.deepcopy(self.story.xml)
        ro.base_tag.remove(ro.base_tag[i])
        ro.base_tag.insert(i, new)
        return ro
    monkeypatch.setattr(mt.StorySend, 'merge', cached)
    shapes = [('AB', 'A', 'C')]
    first = HMixed(max_list=1, story_L=1, meta_subsets=1, layouts=('before',), init_shapes=shapes, kinds=('StorySend',))
    second = HMixed(max_list=1, story_L=1, meta_subsets=1, kinds=('StoryMove', 'EAStorySwap'))
    third = HMixed(max_list=1, story_L=1, meta_subsets=1, kinds=('StorySend',))
    f1, _ = run(first, [M.mon_frame])
    assert f1 == {}, list(f1)[:3]
    f2, _ = run(first, [M.LiveSecondStep([M.mon_frame], third, first_per_kind=3)])
    assert f2 == {}, list(f2)[:3]
    f3, res = run(first, [M.LiveThirdStep([M.mon_frame], second, third, first_per_kind=3, second_per_kind=3, third_per_kind=None)])
    assert res.extra['live_third_steps'] > 0
    assert any('collateral' in k for k in f3), list(f3)


def test_unchanged_on_raise_reports_a_rollback_that_only_lives_in_add(monkeypatch):
    """`ro + msg` restores the running order after a failed merge, msg.merge(ro) does not."""
    mt = ns.mt
    orig_add = mt.RunningOrder.__add__

    def partial(self, ro):
        story, _ = mt.find_child(parent=ro.base_tag, child_tag='story', id=self.story.id)
        if story is None:
            raise ns.exc.MosMergeError('story not found')
        for it in self.items:
            node, _ = mt.find_child(parent=story, child_tag='item', id=it.id)
            if node is None:
                raise ns.exc.MosMergeError('item not found')
            story.remove(node)
        return ro

    def add(self, other):
        keep = copy.deepcopy(self.base_tag)
        try:
            return orig_add(self, other)
        except ns.exc.MosMergeError:
            self.base_tag[:] = list(keep)
            raise
    monkeypatch.setattr(mt.ItemDelete, 'merge', partial)
    monkeypatch.setattr(mt.RunningOrder, '__add__', add)
    f, res = run(HItem(kinds=('ItemDelete',), **SMALL_I), [M.mon_unchanged_on_raise])
    assert res.extra['raising_transitions_repeated_through_msg.merge'] > 0
    assert any('msg.merge:mutated-before-raise' in k for k in f), list(f)
    assert not any('msg.merge' not in k for k in f), [k for k in f if 'msg.merge' not in k][:3]
