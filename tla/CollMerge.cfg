CONSTANT N = 4
SPECIFICATION Spec
INVARIANT TypeOK
INVARIANT CompletionTerminal
INVARIANT CompletedFaithful
INVARIANT ModeDiscipline
INVARIANT NonStrictComplete
INVARIANT StrictPrefix
