------------------------------ MODULE CollMerge ------------------------------
(* Abstract model of MosCollection.merge (properties C09, C07, C05 in collection mode).

   A collection holds N messages in ascending message-ID order; each message is of one of
   three abstract kinds:
     "ok"   - a message that merges (it appends its own story, so its application is observable),
     "fail" - a message whose merge raises MosMergeError (unknown reference),
     "del"  - a roDelete (completes the running order).
   The merge walks the messages in order.  A message fails if its own merge fails or if the
   running order is already completed (MosCompletedMergeError, a MosMergeError).  In strict mode
   the first failure propagates and stops the merge; in non-strict mode every failure is skipped
   with exactly one MosMergeNonStrictWarning and the walk goes on to the end.

   TLC enumerates every (kinds, strict) configuration and every step; the terminal states are
   dumped and each one is replayed against the implementation by mosmc/props/c09.py (the
   conformance check): the applied set, the completed flag, the warning count and the
   propagated exception of the real MosCollection must equal the model's. *)
EXTENDS Naturals, FiniteSets, Sequences

CONSTANT N

Kinds == {"ok", "fail", "del"}

VARIABLES kinds, strict, i, completed, applied, warned, raised

vars == <<kinds, strict, i, completed, applied, warned, raised>>

\* a valid collection holds at most one roDelete (C11); everything after it fails
Init == /\ kinds \in {f \in [1..N -> Kinds] : Cardinality({j \in 1..N : f[j] = "del"}) <= 1}
        /\ strict \in BOOLEAN
        /\ i = 1
        /\ completed = FALSE
        /\ applied = {}
        /\ warned = 0
        /\ raised = "none"

Fails(j) == completed \/ kinds[j] = "fail"

Step == /\ i <= N
        /\ raised = "none"
        /\ IF Fails(i)
             THEN /\ IF strict
                       THEN /\ raised' = IF completed THEN "MosCompletedMergeError" ELSE "MosMergeError"
                            /\ warned' = warned
                       ELSE /\ warned' = warned + 1
                            /\ raised' = raised
                  /\ UNCHANGED <<applied, completed>>
             ELSE /\ applied' = applied \cup {i}
                  /\ completed' = (kinds[i] = "del")
                  /\ UNCHANGED <<warned, raised>>
        /\ i' = i + 1
        /\ UNCHANGED <<kinds, strict>>

Done == (i > N \/ raised # "none") /\ UNCHANGED vars

Next == Step \/ Done

Spec == Init /\ [][Next]_vars

Terminal == i > N \/ raised # "none"

FailingSet == {j \in 1..N : kinds[j] = "fail" \/ \E d \in 1..(j-1) : kinds[d] = "del" /\ \A f \in 1..(d-1) : kinds[f] # "del"}

(* ---- invariants checked by TLC on every reachable state ---- *)

TypeOK == /\ i \in 1..(N+1)
          /\ applied \subseteq 1..N
          /\ warned \in 0..N
          /\ raised \in {"none", "MosMergeError", "MosCompletedMergeError"}

\* nothing is ever applied after an applied roDelete (completion is terminal)
CompletionTerminal == \A d \in applied : kinds[d] = "del" => \A j \in applied : j <= d

\* completed exactly when an applied roDelete exists
CompletedFaithful == completed <=> \E d \in applied : kinds[d] = "del"

\* strict mode never warns, non-strict mode never raises
ModeDiscipline == (strict => warned = 0) /\ (~strict => raised = "none")

\* at the end of a non-strict merge: one warning per failing message, every other message applied
NonStrictComplete == (~strict /\ i > N) => /\ warned = Cardinality(FailingSet)
                                           /\ applied = (1..N) \ FailingSet

\* at the end of a strict merge: exactly the messages before the first failing one were applied
StrictPrefix == (strict /\ Terminal) =>
                   IF FailingSet = {} THEN applied = 1..N /\ raised = "none"
                   ELSE LET f == CHOOSE x \in FailingSet : \A y \in FailingSet : x <= y
                        IN applied = 1..(f-1) /\ raised # "none"
=============================================================================
